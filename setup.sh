#!/bin/sh
# Build everything the checks need, offline, from files on disk only.
set -e
cd "$(dirname "$0")"
export CARGO_NET_OFFLINE=true CARGO_TARGET_DIR=/verif/target
mkdir -p out evidence
if [ -f shim/ioshim.c ]; then
  gcc -O2 -fPIC -shared -o shim/ioshim.so shim/ioshim.c -ldl -lpthread
fi
(cd harness && cargo build --offline --profile verif && cargo build --offline --profile verif-rel)
echo "setup ok"
