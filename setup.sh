#!/bin/sh
# Build everything the checks need, offline, from files on disk only.
set -e
cd "$(dirname "$0")"
export CARGO_NET_OFFLINE=true CARGO_TARGET_DIR=/verif/target
mkdir -p out evidence
if [ -f shim/ioshim.c ]; then
  gcc -O2 -fPIC -shared -o shim/ioshim.so shim/ioshim.c -ldl -lpthread
fi
# Every check builds the harness itself against /repo's current working tree and reports a build failure
# as a harness error of that check; building here only warms the cache, so a failure is reported, not fatal
# (C14 does not need the harness at all, and must still be able to judge a tree on which it does not build).
if (cd harness && cargo build --offline --profile verif && cargo build --offline --profile verif-rel); then
  echo "setup ok"
else
  echo "setup: the harness does not build against /repo's current tree; each check will report that itself" >&2
fi
