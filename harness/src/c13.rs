//! C13 – only one process at a time has the database open.
//! Worker processes (`vh c13-worker`) open the same path, record monotonic
//! timestamps of "open returned" / "about to close", the markers they see, and
//! commit their own marker.  Orderings are forced at libc boundaries with the
//! I/O shim's gates; further runs use seeded start offsets and hold times.
use crate::report::{Ctx, Shard};
use crate::util::{self, Rng, Scratch};
use jammdb::OpenOptions;
use serde::{Deserialize, Serialize};
use std::path::{Path, PathBuf};

#[derive(Serialize, Deserialize, Debug, Clone)]
pub struct WorkerLog {
    pub id: usize,
    pub outcome: String,
    pub detail: String,
    pub t_call: u64,
    pub t_open_ret: u64,
    pub t_closing: u64,
    pub seen: Vec<String>,
    /// large values this opener committed while it held the database: (key, length)
    #[serde(default)]
    pub big: Vec<(String, usize)>,
    /// a child process this opener started while it had the database open (it outlives the opener)
    #[serde(default)]
    pub child_pid: u32,
}

fn now_ns() -> u64 {
    let mut ts = libc::timespec { tv_sec: 0, tv_nsec: 0 };
    unsafe {
        libc::clock_gettime(libc::CLOCK_MONOTONIC, &mut ts);
    }
    ts.tv_sec as u64 * 1_000_000_000 + ts.tv_nsec as u64
}

/// Body of `vh c13-worker`.
pub fn worker(ctx: &Ctx) {
    let path = PathBuf::from(ctx.get("path").expect("path"));
    let id: usize = ctx.get("id").and_then(|s| s.parse().ok()).unwrap_or(0);
    let hold_us: u64 = ctx.get("hold_us").and_then(|s| s.parse().ok()).unwrap_or(0);
    let delay_us: u64 = ctx.get("delay_us").and_then(|s| s.parse().ok()).unwrap_or(0);
    let out = PathBuf::from(ctx.get("log").expect("log"));
    if delay_us > 0 {
        std::thread::sleep(std::time::Duration::from_micros(delay_us));
    }
    if let Some(exp) = ctx.get("verify") {
        // last look after every opener has gone: everything that was committed must be there
        let mut log = WorkerLog { id, outcome: "ok".into(), detail: String::new(), t_call: now_ns(), t_open_ret: 0, t_closing: 0, seen: vec![], big: vec![], child_pid: 0 };
        let expect: Vec<(String, usize, u8)> = std::fs::read(exp).ok().and_then(|b| serde_json::from_slice(&b).ok()).unwrap_or_default();
        let r = util::catch(|| -> Result<(), String> {
            let db = OpenOptions::new().pagesize(1024).num_pages(8).open(&path).map_err(|e| format!("open: {}", e))?;
            db.check().map_err(|e| format!("DB::check: {}", e))?;
            let tx = db.tx(false).map_err(|e| format!("tx: {}", e))?;
            if let Ok(b) = tx.get_bucket("markers") {
                for kv in b.kv_pairs() {
                    log.seen.push(String::from_utf8_lossy(kv.key()).to_string());
                }
            }
            for (k, len, byte) in &expect {
                let b = tx.get_bucket("big").map_err(|e| format!("bucket big: {}", e))?;
                match b.get_kv(k.as_bytes()) {
                    Some(kv) if kv.value().len() == *len && kv.value().iter().all(|x| x == byte) => {}
                    Some(kv) => return Err(format!("value of {} has {} bytes (expected {}) or wrong content", k, kv.value().len(), len)),
                    None => return Err(format!("{} is missing", k)),
                }
            }
            Ok(())
        });
        match r {
            Ok(Ok(())) => {}
            Ok(Err(e)) => {
                log.outcome = "error".into();
                log.detail = e;
            }
            Err(p) => {
                log.outcome = "panic".into();
                log.detail = format!("{}:{}: {}", p.file, p.line, p.msg);
            }
        }
        let _ = std::fs::write(&out, serde_json::to_vec(&log).unwrap());
        return;
    }
    let fail_init = ctx.get("fail_init").is_some();
    if fail_init {
        // this opener cannot extend files: creating / initialising the database fails for it
        unsafe {
            libc::signal(libc::SIGXFSZ, libc::SIG_IGN);
            let lim = libc::rlimit { rlim_cur: 2048, rlim_max: libc::RLIM_INFINITY };
            libc::setrlimit(libc::RLIMIT_FSIZE, &lim);
        }
    }
    let retry_interrupted = ctx.get("signals").is_some();
    if retry_interrupted {
        extern "C" fn on_usr1(_: libc::c_int) {}
        unsafe {
            let mut sa: libc::sigaction = std::mem::zeroed();
            sa.sa_sigaction = on_usr1 as usize;
            sa.sa_flags = 0; // no SA_RESTART: a blocked flock returns EINTR
            libc::sigaction(libc::SIGUSR1, &sa, std::ptr::null_mut());
        }
    }
    let mut log = WorkerLog { id, outcome: "ok".into(), detail: String::new(), t_call: now_ns(), t_open_ret: 0, t_closing: 0, seen: vec![], big: vec![], child_pid: 0 };
    let r = util::catch(|| -> Result<(), String> {
        let db = loop {
            match OpenOptions::new().pagesize(1024).num_pages(8).direct_writes(ctx.get("direct").is_some()).open(&path) {
                Ok(db) => break db,
                Err(jammdb::Error::Io(e)) if retry_interrupted && e.kind() == std::io::ErrorKind::Interrupted => continue,
                Err(e) => return Err(format!("open: {}", e)),
            }
        };
        log.t_open_ret = now_ns();
        {
            // a clone of the handle is used on another thread and dropped: the process still holds the database
            let c = db.clone();
            std::thread::spawn(move || {
                let n = c.tx(false).map(|tx| tx.buckets().count()).unwrap_or(0);
                drop(c);
                n
            })
            .join()
            .map_err(|_| "clone thread panicked".to_string())?;
        }
        {
            let tx = db.tx(true).map_err(|e| format!("tx: {}", e))?;
            {
                let b = tx.get_or_create_bucket("markers").map_err(|e| format!("{}", e))?;
                for kv in b.kv_pairs() {
                    log.seen.push(String::from_utf8_lossy(kv.key()).to_string());
                }
                b.put(format!("m-{}", id), vec![id as u8; 200]).map_err(|e| format!("{}", e))?;
            }
            tx.commit().map_err(|e| format!("commit: {}", e))?;
        }
        // the holder looks at its own file through a second, short-lived descriptor (a backup copy would):
        // locks that belong to the process rather than to the open file would be given up here
        {
            let alias = path.with_file_name("alias.db");
            let _ = std::fs::read(if alias.exists() { &alias } else { &path });
        }
        if hold_us > 0 {
            std::thread::sleep(std::time::Duration::from_micros(hold_us));
        }
        // commits that extend the file while this process holds the database (and others may be queued on the
        // lock): the first needs one extension step, each further one is larger than the step before it
        let grow: usize = ctx.get("grow").and_then(|s| s.parse().ok()).unwrap_or(0);
        for k in 0..grow {
            let len = if k == 0 { 1 << 20 } else { (9 << 20) + (k << 20) };
            let key = format!("big-{}-{}", id, k);
            let tx = db.tx(true).map_err(|e| format!("tx: {}", e))?;
            {
                let b = tx.get_or_create_bucket("big").map_err(|e| format!("{}", e))?;
                b.put(key.clone(), vec![id as u8 + 1; len]).map_err(|e| format!("{}", e))?;
            }
            tx.commit().map_err(|e| format!("growing commit: {}", e))?;
            log.big.push((key, len));
            std::thread::sleep(std::time::Duration::from_micros(500));
        }
        db.check().map_err(|e| format!("DB::check: {}", e))?;
        if ctx.get("child").is_some() {
            // the holder starts a helper process while it has the database open; the helper outlives it.
            // Closing the database must give it back although that process is still running (a descriptor
            // of the database that leaks into the child keeps the lock alive with it).
            let ch = std::process::Command::new("sleep").arg("120").env_remove("LD_PRELOAD").stdin(std::process::Stdio::null()).stdout(std::process::Stdio::null()).stderr(std::process::Stdio::null()).spawn().map_err(|e| format!("spawn helper: {}", e))?;
            log.child_pid = ch.id();
            std::mem::forget(ch);
        }
        if let Some(how) = ctx.get("die") {
            // this holder is killed while it has the database open (power button, OOM killer, kill -9): the
            // kernel closes its descriptors, nothing of the database's own closing code runs.  Everything it
            // committed so far is committed; whoever waits for the database must get in and see it.
            let tx = if how == "2" { db.tx(true).ok() } else { None };
            if let Some(tx) = &tx {
                // an uncommitted write transaction is open at the moment of death
                if let Ok(b) = tx.get_or_create_bucket("markers") {
                    let _ = b.put(format!("uncommitted-{}", id), vec![0xEE; 300]);
                }
            }
            log.t_closing = now_ns();
            std::fs::write(&out, serde_json::to_vec(&log).unwrap()).map_err(|e| e.to_string())?;
            if let Some(tok) = ctx.get("done_token") {
                let _ = std::fs::write(tok, b"dying");
            }
            unsafe {
                libc::kill(libc::getpid(), libc::SIGKILL);
            }
            std::thread::sleep(std::time::Duration::from_secs(5));
            drop(tx);
        }
        if let Some(tok) = ctx.get("done_token") {
            let _ = std::fs::write(tok, b"done");
        }
        log.t_closing = now_ns();
        // write the log BEFORE the handle is dropped: with correct locking the intervals are disjoint
        std::fs::write(&out, serde_json::to_vec(&log).unwrap()).map_err(|e| e.to_string())?;
        drop(db);
        Ok(())
    });
    match r {
        Ok(Ok(())) => return,
        Ok(Err(e)) => {
            log.outcome = if fail_init { "error-expected".into() } else { "error".into() };
            log.detail = e;
        }
        Err(p) => {
            log.outcome = "panic".into();
            log.detail = format!("{}:{}: {}", p.file, p.line, p.msg);
        }
    }
    log.t_closing = now_ns();
    let _ = std::fs::write(&out, serde_json::to_vec(&log).unwrap());
}

#[derive(Serialize, Deserialize, Debug, Clone)]
pub struct Proc {
    pub delay_us: u64,
    pub hold_us: u64,
    /// shim gates: (point "name#k", wait-for token, signal token)
    pub gates: Vec<(String, String, String)>,
    /// give up waiting at a gate after this many ms without complaint (0 = hard 20 s watchdog):
    /// used for orderings that correct locking makes impossible
    #[serde(default)]
    pub soft_ms: u64,
    /// this opener runs with a tiny file-size limit: initialising a new database fails for it
    #[serde(default)]
    pub fail_init: bool,
    /// this opener installs a SIGUSR1 handler without SA_RESTART, retries `open` when it is interrupted,
    /// and the harness sends it this many signals (1 ms apart) while it is presumably queued on the lock
    #[serde(default)]
    pub signals: u32,
    /// this opener reaches the database through another name of the same file (a symbolic link)
    #[serde(default)]
    pub alias: bool,
    /// this opener uses `direct_writes(true)` (another descriptor mode for the same file and the same lock)
    #[serde(default)]
    pub direct: bool,
    /// this opener commits that many file-extending transactions while it holds the database
    #[serde(default)]
    pub grow: u32,
    /// token this opener writes when all its commits are done (just before it closes the database)
    #[serde(default)]
    pub done: String,
    /// this holder is killed (SIGKILL) while it has the database open: 1 = idle after its commits,
    /// 2 = with an uncommitted write transaction open
    #[serde(default)]
    pub die: u8,
    /// this holder starts a helper process (`sleep 120`) while it has the database open; the helper outlives it
    #[serde(default)]
    pub child: bool,
}

#[derive(Serialize, Deserialize, Debug, Clone)]
pub struct Case {
    pub label: String,
    pub existing: bool,
    pub procs: Vec<Proc>,
}

pub const POINTS: [&str; 6] = ["after_open#0", "before_write#0", "after_write#0", "before_fsync#0", "after_fsync#0", "before_mmap#0"];

pub fn forced_cases(thorough: bool) -> Vec<Case> {
    let mut v = Vec::new();
    for existing in [false, true] {
        // A is held at each point of its open until B has returned from its open64; B optionally waits
        // at its own first point until A has reached a later point.
        for (ai, ap) in POINTS.iter().enumerate() {
            if existing && (1..=4).contains(&ai) {
                continue; // an existing file is not written during open
            }
            for b_waits_for in [None, Some("before_mmap#0")] {
                let a = Proc { child: false, die: 0, grow: 0, done: String::new(), direct: false, alias: false, signals: 0, fail_init: false, soft_ms: 0, delay_us: 0, hold_us: 300, gates: vec![(ap.to_string(), "B-opened".into(), format!("A-at-{}", ai)), ("before_mmap#0".into(), String::new(), "A-at-mmap".into())] };
                let mut bg = vec![("after_open#0".to_string(), String::new(), "B-opened".to_string())];
                if let Some(p) = b_waits_for {
                    if *ap == p {
                        continue;
                    }
                    // B continues past its open64 only after A has reached its mmap (i.e. holds the lock in correct code)
                    bg = vec![("after_open#0".to_string(), "A-at-mmap".to_string(), "B-opened".to_string())];
                    // then A must not wait for B (it would never come): A only signals
                    let a2 = Proc { child: false, die: 0, grow: 0, done: String::new(), direct: false, alias: false, signals: 0, fail_init: false, soft_ms: 0, delay_us: 0, hold_us: 2000, gates: vec![(ap.to_string(), String::new(), format!("A-at-{}", ai)), ("before_mmap#0".into(), String::new(), "A-at-mmap".into())] };
                    v.push(Case { label: format!("existing={} A passes {}; B held after its open64 until A maps", existing, ap), existing, procs: vec![a2, Proc { child: false, die: 0, grow: 0, done: String::new(), direct: false, alias: false, signals: 0, fail_init: false, soft_ms: 0, delay_us: 100, hold_us: 100, gates: bg }] });
                    continue;
                }
                v.push(Case { label: format!("existing={} A held at {} until B's open64 returned", existing, ap), existing, procs: vec![a, Proc { child: false, die: 0, grow: 0, done: String::new(), direct: false, alias: false, signals: 0, fail_init: false, soft_ms: 0, delay_us: 200, hold_us: 100, gates: bg.clone() }] });
                if thorough || ai % 2 == 0 {
                    // three processes: C arrives while A is held as well
                    let a3 = Proc { child: false, die: 0, grow: 0, done: String::new(), direct: false, alias: false, signals: 0, fail_init: false, soft_ms: 0, delay_us: 0, hold_us: 300, gates: vec![(ap.to_string(), "C-opened".into(), format!("A-at-{}", ai))] };
                    let b3 = Proc { child: false, die: 0, grow: 0, done: String::new(), direct: false, alias: false, signals: 0, fail_init: false, soft_ms: 0, delay_us: 150, hold_us: 200, gates: vec![("after_open#0".into(), String::new(), "B-opened".into())] };
                    let c3 = Proc { child: false, die: 0, grow: 0, done: String::new(), direct: false, alias: false, signals: 0, fail_init: false, soft_ms: 0, delay_us: 300, hold_us: 100, gates: vec![("after_open#0".into(), "B-opened".into(), "C-opened".into())] };
                    v.push(Case { label: format!("existing={} three processes, A held at {} until B and C called open64", existing, ap), existing, procs: vec![a3, b3, c3] });
                }
            }
        }
    }
    // orderings that correct locking rules out: an opener that has just looked at the file's size is
    // held until another opener has looked too / has finished completely.  With the lock taken before
    // the size is read the second opener cannot get that far, the soft timeout expires and the run
    // proceeds normally; if the size is read outside the exclusive lock the ordering happens.
    for existing in [false] {
        let a = Proc { child: false, die: 0, grow: 0, done: String::new(), direct: false, alias: false, signals: 0, fail_init: false, soft_ms: 300, delay_us: 0, hold_us: 200, gates: vec![("after_stat#0".into(), "B-looked".into(), "A-looked".into())] };
        let b = Proc { child: false, die: 0, grow: 0, done: String::new(), direct: false, alias: false, signals: 0, fail_init: false, soft_ms: 300, delay_us: 150, hold_us: 200, gates: vec![("after_stat#0".into(), "A-looked".into(), "B-looked".into())] };
        v.push(Case { label: "two openers both look at the empty file's size before either initialises it".into(), existing, procs: vec![a.clone(), b.clone()] });
        let c = Proc { child: false, die: 0, grow: 0, done: String::new(), direct: false, alias: false, signals: 0, fail_init: false, soft_ms: 300, delay_us: 250, hold_us: 100, gates: vec![("after_stat#0".into(), "B-looked".into(), "C-looked".into())] };
        v.push(Case { label: "three openers all look at the empty file's size before any initialises it".into(), existing, procs: vec![a, b, c] });
        let a2 = Proc { child: false, die: 0, grow: 0, done: String::new(), direct: false, alias: false, signals: 0, fail_init: false, soft_ms: 400, delay_us: 0, hold_us: 100, gates: vec![("after_stat#0".into(), "B-closing".into(), "A-looked".into())] };
        let b2 = Proc { child: false, die: 0, grow: 0, done: String::new(), direct: false, alias: false, signals: 0, fail_init: false, soft_ms: 0, delay_us: 300, hold_us: 100, gates: vec![("before_close#0".into(), String::new(), "B-closing".into())] };
        v.push(Case { label: "an opener that has seen an empty file is held until another opener has created, used and closed the database".into(), existing, procs: vec![a2, b2] });
        // an opener whose initialisation fails (file-size limit) while a second one is queued on the lock and a
        // third arrives later: the failure of the first must not let the other two in together
        let x = Proc { child: false, die: 0, grow: 0, done: String::new(), direct: false, alias: false, signals: 0, fail_init: true, soft_ms: 300, delay_us: 0, hold_us: 0, gates: vec![("after_stat#0".into(), "Y-opened".into(), "X-looked".into())] };
        let y = Proc { child: false, die: 0, grow: 0, done: String::new(), direct: false, alias: false, signals: 0, fail_init: false, soft_ms: 0, delay_us: 300, hold_us: 4000, gates: vec![("after_open#0".into(), String::new(), "Y-opened".into())] };
        let z = Proc { child: false, die: 0, grow: 0, done: String::new(), direct: false, alias: false, signals: 0, fail_init: false, soft_ms: 0, delay_us: 2500, hold_us: 300, gates: vec![] };
        v.push(Case { label: "the first opener fails to initialise the file while a second is queued on the lock; a third arrives later".into(), existing, procs: vec![x, y, z] });
    }
    // an opener held just BEFORE its open(2) of the path (after anything it may have learnt about the path
    // earlier) until another opener has created the database, committed to it and is about to close it
    {
        let b = Proc { child: false, die: 0, grow: 0, done: String::new(), direct: false, alias: false, signals: 0, fail_init: false, soft_ms: 0, delay_us: 0, hold_us: 100, gates: vec![("before_open#0".into(), "A-closing".into(), "B-parked".into())] };
        let a = Proc { child: false, die: 0, grow: 0, done: String::new(), direct: false, alias: false, signals: 0, fail_init: false, soft_ms: 0, delay_us: 0, hold_us: 300, gates: vec![("before_open#0".into(), "B-parked".into(), String::new()), ("before_close#0".into(), String::new(), "A-closing".into())] };
        v.push(Case { label: "an opener is held before its open(2) of a path that does not exist yet until another has created, used and is closing the database".into(), existing: false, procs: vec![b.clone(), a.clone()] });
        // the same while the creator is still in the middle of initialising the file
        let a2 = Proc { child: false, die: 0, grow: 0, done: String::new(), direct: false, alias: false, signals: 0, fail_init: false, soft_ms: 0, delay_us: 0, hold_us: 2000, gates: vec![("before_open#0".into(), "B-parked".into(), String::new()), ("after_write#0".into(), String::new(), "A-closing".into())] };
        v.push(Case { label: "an opener is held before its open(2) of a path that does not exist yet until another is initialising the file".into(), existing: false, procs: vec![b, a2] });
    }
    // a holder that stays inside for seconds: the second opener must wait that long, not give up and not walk in
    {
        let a = Proc { child: false, die: 0, grow: 0, done: String::new(), direct: false, alias: false, signals: 0, fail_init: false, soft_ms: 0, delay_us: 0, hold_us: if thorough { 40_000_000 } else { 9_000_000 }, gates: vec![("before_mmap#0".into(), String::new(), "A-at-mmap".into())] };
        let b = Proc { child: false, die: 0, grow: 0, done: String::new(), direct: false, alias: false, signals: 0, fail_init: false, soft_ms: 0, delay_us: 0, hold_us: 100, gates: vec![("before_open#0".into(), "A-at-mmap".into(), String::new())] };
        v.push(Case { label: format!("the holder keeps the database for {} seconds while a second opener is queued", if thorough { 40 } else { 9 }), existing: true, procs: vec![a, b] });
    }
    // the holder (or the newcomer) opened with direct_writes(true)
    for (existing, a_direct, b_direct) in [(true, true, false), (false, true, false), (true, false, true), (true, true, true)] {
        let a = Proc { child: false, die: 0, grow: 0, done: String::new(), direct: a_direct, alias: false, signals: 0, fail_init: false, soft_ms: 0, delay_us: 0, hold_us: 20_000, gates: vec![("before_mmap#0".into(), String::new(), "A-at-mmap".into())] };
        let b = Proc { child: false, die: 0, grow: 0, done: String::new(), direct: b_direct, alias: false, signals: 0, fail_init: false, soft_ms: 0, delay_us: 0, hold_us: 100, gates: vec![("before_open#0".into(), "A-at-mmap".into(), String::new())] };
        v.push(Case { label: format!("existing={} holder direct_writes={} while a second opener (direct_writes={}) arrives", existing, a_direct, b_direct), existing, procs: vec![a, b] });
    }
    // an opener queued on the lock is hit by signals (handler without SA_RESTART); it retries interrupted opens
    for (existing, n) in [(true, 2u32), (false, 3), (true, 6)] {
        let a = Proc { child: false, die: 0, grow: 0, done: String::new(), direct: false, alias: false, signals: 0, fail_init: false, soft_ms: 0, delay_us: 0, hold_us: 25_000, gates: vec![("before_mmap#0".into(), String::new(), "A-at-mmap".into())] };
        // (B reports that it is parked at its gate - its signal handler is installed by then - before any signal is sent)
        let b = Proc { child: false, die: 0, grow: 0, done: String::new(), direct: false, alias: false, signals: n, fail_init: false, soft_ms: 0, delay_us: 0, hold_us: 100, gates: vec![("before_open#0".into(), "A-at-mmap".into(), "B-parked".into())] };
        v.push(Case { label: format!("existing={} an opener queued on the lock receives {} signals", existing, n), existing, procs: vec![a, b] });
    }
    // the holder EXTENDS the file (1-3 times) while a second (and third) opener is queued on the lock: the lock must
    // be held through every step of a growing commit, and through everything closing the database does
    for (existing, ga, gb, three, a_direct) in [(true, 1u32, 0u32, false, false), (false, 2, 1, false, false), (true, 3, 1, true, false), (true, 2, 0, false, true), (false, 1, 1, true, false)] {
        let a = Proc { child: false, die: 0, grow: ga, done: String::new(), direct: a_direct, alias: false, signals: 0, fail_init: false, soft_ms: 0, delay_us: 0, hold_us: 20_000, gates: vec![("before_mmap#0".into(), String::new(), "A-at-mmap".into())] };
        let b = Proc { child: false, die: 0, grow: gb, done: String::new(), direct: false, alias: false, signals: 0, fail_init: false, soft_ms: 0, delay_us: 0, hold_us: 100, gates: vec![("before_open#0".into(), "A-at-mmap".into(), String::new())] };
        let mut procs = vec![a, b.clone()];
        if three {
            procs.push(Proc { alias: true, grow: 1, ..b.clone() });
        }
        v.push(Case { label: format!("existing={} the holder (direct_writes={}) extends the file {} time(s) while {} opener(s) are queued; the next extends it {} time(s)", existing, a_direct, ga, procs.len() - 1, gb), existing, procs });
    }
    // the holder is KILLED while it has the database open and one or two openers are queued on the lock: the
    // kernel closes its descriptors, none of the database's closing code runs.  The queued openers must get
    // in (one at a time), see what the dead holder had committed and nothing of what it had not, and the
    // file must be sound.  (A lock that has to be given back by code - a lock file, an "in use" flag in the
    // file - stays taken for ever.)
    for (existing, die, grow, three) in [(true, 1u8, 0u32, false), (false, 1, 1, false), (true, 2, 0, false), (false, 2, 1, true), (true, 1, 2, true)] {
        let a = Proc { child: false, die, grow, done: String::new(), direct: false, alias: false, signals: 0, fail_init: false, soft_ms: 0, delay_us: 0, hold_us: 30_000, gates: vec![("before_mmap#0".into(), String::new(), "A-at-mmap".into())] };
        let b = Proc { child: false, die: 0, grow: 0, done: String::new(), direct: false, alias: false, signals: 0, fail_init: false, soft_ms: 0, delay_us: 0, hold_us: 100, gates: vec![("before_open#0".into(), "A-at-mmap".into(), String::new())] };
        let mut procs = vec![a, b.clone()];
        if three {
            procs.push(Proc { grow: 1, ..b.clone() });
        }
        v.push(Case { label: format!("existing={} the holder is killed (mode {}, after {} extension(s)) while {} opener(s) are queued on the lock", existing, die, grow, procs.len() - 1), existing, procs });
    }
    // the holder starts a helper process while it has the database open; the helper is still running when the
    // holder has closed the database and exited.  The queued opener must get in then, not when the helper ends.
    for (existing, grow) in [(true, 0u32), (false, 1)] {
        let a = Proc { child: true, die: 0, grow, done: String::new(), direct: false, alias: false, signals: 0, fail_init: false, soft_ms: 0, delay_us: 0, hold_us: 20_000, gates: vec![("before_mmap#0".into(), String::new(), "A-at-mmap".into())] };
        let b = Proc { child: false, die: 0, grow: 0, done: String::new(), direct: false, alias: false, signals: 0, fail_init: false, soft_ms: 0, delay_us: 0, hold_us: 100, gates: vec![("before_open#0".into(), "A-at-mmap".into(), String::new())] };
        v.push(Case { label: format!("existing={} the holder starts a helper process while it has the database open; the helper outlives it; an opener is queued", existing), existing, procs: vec![a, b] });
    }
    // whatever closing does after the lock is gone must not touch the file: if the holder that extended the file
    // ever truncates it while closing, it is held there until the next opener has committed and is about to close
    for existing in [true, false] {
        let a = Proc { child: false, die: 0, grow: 1, done: String::new(), direct: false, alias: false, signals: 0, fail_init: false, soft_ms: 0, delay_us: 0, hold_us: 10_000, gates: vec![("before_mmap#0".into(), String::new(), "A-at-mmap".into()), ("before_truncate#0".into(), "B-done".into(), String::new())] };
        let b = Proc { child: false, die: 0, grow: 1, done: "B-done".into(), direct: false, alias: false, signals: 0, fail_init: false, soft_ms: 0, delay_us: 0, hold_us: 100, gates: vec![("before_open#0".into(), "A-at-mmap".into(), String::new())] };
        v.push(Case { label: format!("existing={} a holder that extended the file closes while the next opener (which extends it again) is queued", existing), existing, procs: vec![a, b] });
    }
    v
}

pub struct Outcome {
    pub violations: Vec<(String, String)>,
    pub inconclusive: Option<String>,
    pub waited: bool,
    pub verified: bool,
}

pub fn run_case(c: &Case, dir: &Path, exe: &Path, shim: &str, n: u64) -> Outcome {
    let mut o = Outcome { violations: vec![], inconclusive: None, waited: false, verified: false };
    let sub = dir.join(format!("case-{}", n));
    let _ = std::fs::remove_dir_all(&sub);
    std::fs::create_dir_all(&sub).expect("case dir");
    let db = sub.join("shared.db");
    if c.existing {
        // create it beforehand with one ordinary opener
        let st = std::process::Command::new(exe)
            .args(["c13-worker", "--set", &format!("path={}", db.display()), "--set", "id=99", "--set", &format!("log={}", sub.join("pre.json").display())])
            .env_remove("LD_PRELOAD")
            .status();
        if !matches!(st, Ok(s) if s.success()) || !sub.join("pre.json").exists() {
            o.inconclusive = Some("could not pre-create the database".into());
            return o;
        }
    }
    // another name for the same file (dangling until the database is created)
    let alias = sub.join("alias.db");
    let _ = std::os::unix::fs::symlink("shared.db", &alias);
    let mut children = Vec::new();
    for (i, p) in c.procs.iter().enumerate() {
        let db = if p.alias { alias.clone() } else { db.clone() };
        let gates: Vec<String> = p
            .gates
            .iter()
            .map(|(pt, wait, sig)| {
                format!(
                    "{}:{}:{}:{}",
                    pt,
                    if wait.is_empty() { String::new() } else { sub.join(wait).display().to_string() },
                    if sig.is_empty() { String::new() } else { sub.join(sig).display().to_string() },
                    p.soft_ms
                )
            })
            .collect();
        let mut cmd = std::process::Command::new(exe);
        cmd.args([
            "c13-worker",
            "--set",
            &format!("path={}", db.display()),
            "--set",
            &format!("id={}", i),
            "--set",
            &format!("hold_us={}", p.hold_us),
            "--set",
            &format!("delay_us={}", p.delay_us),
            "--set",
            &format!("log={}", sub.join(format!("w{}.json", i)).display()),
        ]);
        if p.fail_init {
            cmd.args(["--set", "fail_init=1"]);
        }
        if p.signals > 0 {
            cmd.args(["--set", "signals=1"]);
        }
        if p.direct {
            cmd.args(["--set", "direct=1"]);
        }
        if p.grow > 0 {
            cmd.args(["--set", &format!("grow={}", p.grow)]);
        }
        if !p.done.is_empty() {
            cmd.args(["--set", &format!("done_token={}", sub.join(&p.done).display())]);
        }
        if p.die > 0 {
            cmd.args(["--set", &format!("die={}", p.die)]);
        }
        if p.child {
            cmd.args(["--set", "child=1"]);
        }
        if !p.gates.is_empty() || p.fail_init {
            cmd.env("LD_PRELOAD", shim).env("VERIF_DBPATH", db.display().to_string()).env("VERIF_GATES", gates.join(";"));
        } else {
            cmd.env_remove("LD_PRELOAD");
        }
        cmd.stdout(std::process::Stdio::null()).stderr(std::process::Stdio::null());
        match cmd.spawn() {
            Ok(ch) => children.push(ch),
            Err(e) => {
                o.inconclusive = Some(format!("spawn: {}", e));
                return o;
            }
        }
    }
    // signals for the openers that asked for them: a little after the other opener reached its mmap
    for (i, p) in c.procs.iter().enumerate() {
        if p.signals > 0 {
            let t0 = std::time::Instant::now();
            // never before the receiver has installed its handler and reached its gate: a process that is
            // still starting up would be killed by the default action of the signal
            while !(sub.join("A-at-mmap").exists() && sub.join("B-parked").exists()) && t0.elapsed().as_millis() < 15000 {
                std::thread::sleep(std::time::Duration::from_micros(200));
            }
            if !sub.join("B-parked").exists() {
                continue;
            }
            std::thread::sleep(std::time::Duration::from_millis(3));
            for _ in 0..p.signals {
                if let Some(ch) = children.get(i) {
                    unsafe {
                        libc::kill(ch.id() as i32, libc::SIGUSR1);
                    }
                }
                std::thread::sleep(std::time::Duration::from_millis(1));
            }
        }
    }
    // generous wall-clock watchdog; a hang is inconclusive unless the logs show a violation - with one
    // exception that does not rest on the clock alone: once a holder that was to be killed is dead (reaped
    // here), nobody holds the database any more and nothing else is going to happen; an opener that is
    // still asleep (process state S, next to no CPU time used) twenty seconds later waits for a lock that
    // nobody will give back.
    let t0 = std::time::Instant::now();
    let mut hung = false;
    let mut holder_died_at: Option<std::time::Instant> = None;
    let mut stuck_after_death: Vec<usize> = Vec::new();
    let mut done = vec![false; children.len()];
    while done.iter().any(|d| !*d) {
        for (i, ch) in children.iter_mut().enumerate() {
            if done[i] {
                continue;
            }
            match ch.try_wait() {
                Ok(Some(_)) => {
                    done[i] = true;
                    if (c.procs[i].die > 0 || c.procs[i].child) && holder_died_at.is_none() {
                        holder_died_at = Some(std::time::Instant::now());
                    }
                }
                Ok(None) => {}
                Err(_) => done[i] = true,
            }
        }
        let after_death = holder_died_at.map(|t| t.elapsed().as_secs() >= 20).unwrap_or(false);
        let longest_hold_s = c.procs.iter().map(|p| p.hold_us / 1_000_000).max().unwrap_or(0);
        if t0.elapsed().as_secs() > 45 + longest_hold_s || after_death {
            for (i, ch) in children.iter_mut().enumerate() {
                if done[i] {
                    continue;
                }
                if after_death && c.procs[i].die == 0 && !c.procs[i].child {
                    // state and CPU time of the opener that has not come back
                    let stat = std::fs::read_to_string(format!("/proc/{}/stat", ch.id())).unwrap_or_default();
                    let f: Vec<&str> = stat.rsplit_once(") ").map(|x| x.1.split(' ').collect()).unwrap_or_default();
                    let state = f.first().copied().unwrap_or("?");
                    let ticks: u64 = f.get(11).and_then(|x| x.parse::<u64>().ok()).unwrap_or(0) + f.get(12).and_then(|x| x.parse::<u64>().ok()).unwrap_or(0);
                    if state == "S" && ticks < 200 {
                        stuck_after_death.push(i);
                    }
                }
                let _ = ch.kill();
                let _ = ch.wait();
                done[i] = true;
                hung = true;
            }
        }
        std::thread::sleep(std::time::Duration::from_micros(300));
    }
    for i in &stuck_after_death {
        let killed = c.procs.iter().any(|p| p.die > 0);
        o.violations.push((
            if killed { "opener-never-gets-in-after-the-holder-was-killed".to_string() } else { "opener-never-gets-in-although-the-holder-closed-the-database-and-exited".to_string() },
            format!("[{}] opener {} was still asleep 20 s after the process that held the database had {} (no process that opened the database is left, nothing else was running)", c.label, i, if killed { "been killed" } else { "closed it and exited, leaving a helper process behind" }),
        ));
    }
    // helper processes started by holders are ended here, whatever happened
    for i in 0..c.procs.len() {
        if let Some(l) = std::fs::read(sub.join(format!("w{}.json", i))).ok().and_then(|b| serde_json::from_slice::<WorkerLog>(&b).ok()) {
            if l.child_pid > 1 {
                unsafe {
                    libc::kill(l.child_pid as i32, libc::SIGKILL);
                }
            }
        }
    }
    let timeouts = std::fs::read_dir(&sub).map(|d| d.filter_map(|e| e.ok()).any(|e| e.file_name().to_string_lossy().ends_with(".timeout"))).unwrap_or(false);
    let mut logs: Vec<WorkerLog> = Vec::new();
    for i in 0..c.procs.len() {
        match std::fs::read(sub.join(format!("w{}.json", i))).ok().and_then(|b| serde_json::from_slice::<WorkerLog>(&b).ok()) {
            Some(l) => logs.push(l),
            None => {
                if !hung {
                    o.violations.push(("opener-died".into(), format!("[{}] opener {} left no log (killed by a signal?)", c.label, i)));
                }
            }
        }
    }
    for l in &logs {
        if l.outcome != "ok" && l.outcome != "error-expected" {
            o.violations.push((format!("opener-{}", l.outcome), format!("[{}] opener {}: {}", c.label, l.id, l.detail)));
        }
    }
    let mut ok: Vec<&WorkerLog> = logs.iter().filter(|l| l.outcome == "ok").collect();
    ok.sort_by_key(|l| l.t_open_ret);
    for w in ok.windows(2) {
        if w[1].t_open_ret < w[0].t_closing {
            o.violations.push((
                "two-openers-inside".into(),
                format!("[{}] opener {} got the database {} us before opener {} started to close it", c.label, w[1].id, (w[0].t_closing - w[1].t_open_ret) / 1000, w[0].id),
            ));
        }
        if w[1].t_call < w[0].t_closing {
            o.waited = true;
        }
    }
    for (k, l) in ok.iter().enumerate() {
        let mut want: Vec<String> = ok[..k].iter().map(|p| format!("m-{}", p.id)).collect();
        if c.existing {
            want.push("m-99".into());
        }
        want.sort();
        let mut seen = l.seen.clone();
        seen.sort();
        if seen != want && o.violations.is_empty() {
            o.violations.push((
                "opener-does-not-see-earlier-commits".into(),
                format!("[{}] opener {} (#{} to get the database) sees markers {:?}, expected {:?}", c.label, l.id, k, seen, want),
            ));
        }
    }
    // when everybody has gone: one more opener must find every marker and every large value that was committed
    if !hung && !timeouts && o.violations.is_empty() && logs.len() == c.procs.len() {
        let expect: Vec<(String, usize, u8)> = ok.iter().flat_map(|l| l.big.iter().map(|(k, n)| (k.clone(), *n, l.id as u8 + 1)).collect::<Vec<_>>()).collect();
        let ef = sub.join("expect.json");
        let vf = sub.join("verify.json");
        let _ = std::fs::write(&ef, serde_json::to_vec(&expect).unwrap());
        let st = std::process::Command::new(exe)
            .args(["c13-worker", "--set", &format!("path={}", db.display()), "--set", "id=98", "--set", &format!("log={}", vf.display()), "--set", &format!("verify={}", ef.display())])
            .env_remove("LD_PRELOAD")
            .stdout(std::process::Stdio::null())
            .stderr(std::process::Stdio::null())
            .status();
        let vl = std::fs::read(&vf).ok().and_then(|b| serde_json::from_slice::<WorkerLog>(&b).ok());
        match (st, vl) {
            (Ok(s), Some(l)) if s.success() => {
                let mut want: Vec<String> = ok.iter().map(|p| format!("m-{}", p.id)).collect();
                if c.existing {
                    want.push("m-99".into());
                }
                want.sort();
                let mut seen = l.seen.clone();
                seen.sort();
                if l.outcome != "ok" {
                    o.violations.push((format!("after-all-closed:{}", l.outcome), format!("[{}] an opener that comes when everybody has gone: {}", c.label, l.detail)));
                } else if seen != want {
                    o.violations.push(("after-all-closed:markers".into(), format!("[{}] an opener that comes when everybody has gone sees markers {:?}, expected {:?}", c.label, seen, want)));
                }
                o.verified = true;
            }
            (Ok(s), _) if !s.success() && s.code().is_none() => {
                o.violations.push(("after-all-closed:opener-died".into(), format!("[{}] an opener that comes when everybody has gone was killed ({:?})", c.label, s)));
            }
            (st, _) => {
                o.inconclusive = Some(format!("[{}] the final verifier could not be run ({:?})", c.label, st.map(|s| s.code())));
            }
        }
    }
    if (hung || timeouts) && o.violations.is_empty() {
        o.inconclusive = Some(format!("[{}] watchdog fired (hung={}, gate timeout={})", c.label, hung, timeouts));
    }
    let _ = std::fs::remove_dir_all(&sub);
    o
}

pub fn run(ctx: &Ctx) -> Shard {
    let mut shard = Shard::new("C13");
    let scratch = Scratch::new("C13");
    let exe = std::env::current_exe().expect("exe");
    let shim = ctx.get("shim").unwrap_or("/verif/shim/ioshim.so").to_string();
    let mut cases: Vec<Case> = Vec::new();
    if let Some(rp) = &ctx.replay {
        let doc: serde_json::Value = serde_json::from_slice(&std::fs::read(rp).expect("read replay")).expect("parse");
        cases.push(serde_json::from_value(doc["case"]["c13_case"].clone()).expect("case"));
    } else {
        for (i, c) in forced_cases(ctx.thorough()).into_iter().enumerate() {
            if (i as u64) % ctx.nshards == ctx.shard {
                cases.push(c);
            }
        }
        let mut rng = Rng::new(ctx.shard_seed());
        let n = ctx.scale(if ctx.thorough() { 250 } else { 60 });
        for _ in 0..n {
            let k = 2 + rng.usize(2);
            let existing = rng.chance(1, 2);
            let procs = (0..k).map(|pi| Proc { child: pi == 0 && rng.chance(1, 8), die: if pi == 0 && rng.chance(1, 6) { 1 + rng.below(2) as u8 } else { 0 }, grow: if rng.chance(1, 3) { 1 + rng.below(2) as u32 } else { 0 }, done: String::new(), direct: rng.chance(1, 4), alias: pi == 1 && rng.chance(1, 2), signals: 0, fail_init: false, soft_ms: 0, delay_us: rng.below(3000), hold_us: rng.below(5000), gates: vec![] }).collect();
            cases.push(Case { label: format!("{} processes, seeded offsets, existing={}", k, existing), existing, procs });
        }
    }
    let mut waited = 0u64;
    for (n, c) in cases.iter().enumerate() {
        let o = run_case(c, &scratch.dir, &exe, &shim, n as u64);
        shard.evaluations += 1;
        let hh = util::fnv64(serde_json::to_string(c).unwrap().as_bytes());
        shard.distinct.insert(hh);
        if !c.procs.iter().all(|p| p.gates.is_empty()) || o.waited {
            shard.nontrivial.insert(hh);
        }
        if o.waited {
            waited += 1;
        }
        for (sig, detail) in &o.violations {
            shard.violation(ctx, sig, detail, &serde_json::json!({"kind": "c13", "c13_case": c}));
        }
        if let Some(i) = o.inconclusive {
            shard.inconclusive(i);
        }
        if o.verified {
            shard.count("runs_followed_by_a_final_opener_that_found_everything", 1);
        }
        if c.procs.iter().any(|p| p.grow > 0) {
            shard.count("runs_in_which_a_holder_extended_the_file_with_others_queued", 1);
        }
        if c.procs.iter().any(|p| p.child) {
            shard.count("runs_in_which_a_holder_left_a_helper_process_behind", 1);
        }
        if c.procs.iter().any(|p| p.die > 0) {
            shard.count("runs_in_which_a_holder_was_killed_while_it_had_the_database_open", 1);
            if o.verified {
                shard.count("runs_with_a_killed_holder_after_which_everything_committed_was_found", 1);
            }
        }
        shard.count(if c.procs.len() == 2 { "runs_with_2_processes" } else { "runs_with_3_processes" }, 1);
        shard.count(if c.existing { "runs_on_existing_file" } else { "runs_on_file_not_yet_created" }, 1);
        if c.procs.iter().any(|p| !p.gates.is_empty()) {
            shard.count("runs_with_forced_ordering", 1);
            shard.set("forced_orderings", c.label.clone());
        }
        if shard.samples.len() < 2 {
            shard.sample(serde_json::json!({"case": c.label, "processes": c.procs.len(), "gates": c.procs.iter().map(|p| p.gates.clone()).collect::<Vec<_>>() }));
        }
    }
    shard.count("runs_in_which_an_opener_had_to_wait_for_another", waited);
    shard
}
