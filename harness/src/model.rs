//! Reference model: the sequential specification of jammdb's public API as a
//! nested ordered map.  Deliberately tiny and independent of jammdb's code.
use std::collections::BTreeMap;
use std::ops::Bound;

#[derive(Clone, Debug, PartialEq, Eq)]
pub enum Entry {
    Val(Vec<u8>),
    Bucket(MBucket),
}

#[derive(Clone, Debug, PartialEq, Eq, Default)]
pub struct MBucket {
    pub entries: BTreeMap<Vec<u8>, Entry>,
    pub next_int: u64,
}

#[derive(Clone, Copy, Debug, PartialEq, Eq, Hash, PartialOrd, Ord)]
pub enum ErrKind {
    BucketExists,
    BucketMissing,
    KeyValueMissing,
    IncompatibleValue,
    ReadOnlyTx,
    /// anything else (Io, Sync, InvalidDB, Alloc) – never predicted by the model
    Other,
}

impl ErrKind {
    pub fn of(e: &jammdb::Error) -> ErrKind {
        match e {
            jammdb::Error::BucketExists => ErrKind::BucketExists,
            jammdb::Error::BucketMissing => ErrKind::BucketMissing,
            jammdb::Error::KeyValueMissing => ErrKind::KeyValueMissing,
            jammdb::Error::IncompatibleValue => ErrKind::IncompatibleValue,
            jammdb::Error::ReadOnlyTx => ErrKind::ReadOnlyTx,
            _ => ErrKind::Other,
        }
    }
}

/// What a point lookup / cursor item looks like from outside.
#[derive(Clone, Debug, PartialEq, Eq)]
pub enum Item {
    Kv(Vec<u8>, Vec<u8>),
    Bucket(Vec<u8>),
}

impl Item {
    pub fn key(&self) -> &[u8] {
        match self {
            Item::Kv(k, _) => k,
            Item::Bucket(k) => k,
        }
    }
}

impl MBucket {
    pub fn item(&self, k: &[u8]) -> Option<Item> {
        self.entries.get(k).map(|e| match e {
            Entry::Val(v) => Item::Kv(k.to_vec(), v.clone()),
            Entry::Bucket(_) => Item::Bucket(k.to_vec()),
        })
    }

    pub fn items(&self) -> Vec<Item> {
        self.entries
            .iter()
            .map(|(k, e)| match e {
                Entry::Val(v) => Item::Kv(k.clone(), v.clone()),
                Entry::Bucket(_) => Item::Bucket(k.clone()),
            })
            .collect()
    }

    pub fn items_in(&self, lo: Bound<&[u8]>, hi: Bound<&[u8]>) -> Vec<Item> {
        // filter semantics: never panics on reversed / empty bounds
        self.items()
            .into_iter()
            .filter(|it| {
                let k = it.key();
                let lo_ok = match lo {
                    Bound::Included(l) => k >= l,
                    Bound::Excluded(l) => k > l,
                    Bound::Unbounded => true,
                };
                let hi_ok = match hi {
                    Bound::Included(h) => k <= h,
                    Bound::Excluded(h) => k < h,
                    Bound::Unbounded => true,
                };
                lo_ok && hi_ok
            })
            .collect()
    }

    pub fn pred(&self, k: &[u8]) -> Option<Vec<u8>> {
        self.entries
            .range::<[u8], _>((Bound::Unbounded, Bound::Excluded(k)))
            .next_back()
            .map(|(k, _)| k.clone())
    }

    pub fn succ(&self, k: &[u8]) -> Option<Vec<u8>> {
        self.entries
            .range::<[u8], _>((Bound::Excluded(k), Bound::Unbounded))
            .next()
            .map(|(k, _)| k.clone())
    }

    pub fn put(&mut self, k: &[u8], v: &[u8]) -> Result<Option<(Vec<u8>, Vec<u8>)>, ErrKind> {
        match self.entries.get_mut(k) {
            Some(Entry::Bucket(_)) => Err(ErrKind::IncompatibleValue),
            Some(Entry::Val(old)) => {
                let o = std::mem::replace(old, v.to_vec());
                Ok(Some((k.to_vec(), o)))
            }
            None => {
                self.entries.insert(k.to_vec(), Entry::Val(v.to_vec()));
                self.next_int += 1;
                Ok(None)
            }
        }
    }

    pub fn delete(&mut self, k: &[u8]) -> Result<(Vec<u8>, Vec<u8>), ErrKind> {
        match self.entries.get(k) {
            None => Err(ErrKind::KeyValueMissing),
            Some(Entry::Bucket(_)) => Err(ErrKind::IncompatibleValue),
            Some(Entry::Val(_)) => match self.entries.remove(k) {
                Some(Entry::Val(v)) => Ok((k.to_vec(), v)),
                _ => unreachable!(),
            },
        }
    }

    pub fn create_bucket(&mut self, k: &[u8]) -> Result<(), ErrKind> {
        match self.entries.get(k) {
            Some(Entry::Bucket(_)) => Err(ErrKind::BucketExists),
            Some(Entry::Val(_)) => Err(ErrKind::IncompatibleValue),
            None => {
                self.entries
                    .insert(k.to_vec(), Entry::Bucket(MBucket::default()));
                self.next_int += 1;
                Ok(())
            }
        }
    }

    pub fn get_bucket(&self, k: &[u8]) -> Result<(), ErrKind> {
        match self.entries.get(k) {
            Some(Entry::Bucket(_)) => Ok(()),
            Some(Entry::Val(_)) => Err(ErrKind::IncompatibleValue),
            None => Err(ErrKind::BucketMissing),
        }
    }

    pub fn get_or_create_bucket(&mut self, k: &[u8]) -> Result<bool, ErrKind> {
        match self.entries.get(k) {
            Some(Entry::Bucket(_)) => Ok(false),
            Some(Entry::Val(_)) => Err(ErrKind::IncompatibleValue),
            None => {
                self.entries
                    .insert(k.to_vec(), Entry::Bucket(MBucket::default()));
                self.next_int += 1;
                Ok(true)
            }
        }
    }

    pub fn delete_bucket(&mut self, k: &[u8]) -> Result<(), ErrKind> {
        match self.entries.get(k) {
            Some(Entry::Bucket(_)) => {
                self.entries.remove(k);
                Ok(())
            }
            Some(Entry::Val(_)) => Err(ErrKind::IncompatibleValue),
            None => Err(ErrKind::BucketMissing),
        }
    }

    pub fn at(&self, path: &[Vec<u8>]) -> Option<&MBucket> {
        let mut b = self;
        for p in path {
            match b.entries.get(p) {
                Some(Entry::Bucket(nb)) => b = nb,
                _ => return None,
            }
        }
        Some(b)
    }

    pub fn at_mut(&mut self, path: &[Vec<u8>]) -> Option<&mut MBucket> {
        let mut b = self;
        for p in path {
            match b.entries.get_mut(p) {
                Some(Entry::Bucket(nb)) => b = nb,
                _ => return None,
            }
        }
        Some(b)
    }

    /// All bucket paths (including the root = empty path), depth first, in key order.
    pub fn bucket_paths(&self) -> Vec<Vec<Vec<u8>>> {
        let mut out = vec![vec![]];
        fn rec(b: &MBucket, cur: &mut Vec<Vec<u8>>, out: &mut Vec<Vec<Vec<u8>>>) {
            for (k, e) in &b.entries {
                if let Entry::Bucket(nb) = e {
                    cur.push(k.clone());
                    out.push(cur.clone());
                    rec(nb, cur, out);
                    cur.pop();
                }
            }
        }
        rec(self, &mut vec![], &mut out);
        out
    }

    pub fn total_entries(&self) -> usize {
        self.entries
            .values()
            .map(|e| match e {
                Entry::Val(_) => 1,
                Entry::Bucket(b) => 1 + b.total_entries(),
            })
            .sum()
    }

    /// Canonical fingerprint of the logical contents (keys, values, structure,
    /// counters of non-root buckets).
    pub fn digest(&self) -> u64 {
        fn rec(b: &MBucket, h: &mut u64, root: bool) {
            use crate::util::fnv64_more;
            if !root {
                *h = fnv64_more(*h, &b.next_int.to_le_bytes());
            }
            *h = fnv64_more(*h, &(b.entries.len() as u64).to_le_bytes());
            for (k, e) in &b.entries {
                *h = fnv64_more(*h, &(k.len() as u64).to_le_bytes());
                *h = fnv64_more(*h, k);
                match e {
                    Entry::Val(v) => {
                        *h = fnv64_more(*h, &[0]);
                        *h = fnv64_more(*h, &(v.len() as u64).to_le_bytes());
                        *h = fnv64_more(*h, v);
                    }
                    Entry::Bucket(nb) => {
                        *h = fnv64_more(*h, &[1]);
                        rec(nb, h, false);
                    }
                }
            }
        }
        let mut h = 0xcbf2_9ce4_8422_2325u64;
        rec(self, &mut h, true);
        h
    }

    /// First difference between two states, as text (for violation reports).
    pub fn diff(&self, other: &MBucket, compare_root_counter: bool) -> Option<String> {
        fn rec(a: &MBucket, b: &MBucket, path: &str, cmp_counter: bool) -> Option<String> {
            use crate::util::show;
            if cmp_counter && a.next_int != b.next_int {
                return Some(format!(
                    "bucket {}: next_int {} vs {}",
                    path, a.next_int, b.next_int
                ));
            }
            let mut ia = a.entries.iter();
            let mut ib = b.entries.iter();
            loop {
                match (ia.next(), ib.next()) {
                    (None, None) => return None,
                    (Some((k, _)), None) => {
                        return Some(format!("bucket {}: key {} only on left", path, show(k)))
                    }
                    (None, Some((k, _))) => {
                        return Some(format!("bucket {}: key {} only on right", path, show(k)))
                    }
                    (Some((ka, ea)), Some((kb, eb))) => {
                        if ka != kb {
                            return Some(format!(
                                "bucket {}: key {} vs {}",
                                path,
                                show(ka),
                                show(kb)
                            ));
                        }
                        match (ea, eb) {
                            (Entry::Val(va), Entry::Val(vb)) => {
                                if va != vb {
                                    return Some(format!(
                                        "bucket {}: value of {} differs: {} vs {}",
                                        path,
                                        show(ka),
                                        show(va),
                                        show(vb)
                                    ));
                                }
                            }
                            (Entry::Bucket(na), Entry::Bucket(nb)) => {
                                let p = format!("{}/{}", path, show(ka));
                                if let Some(d) = rec(na, nb, &p, true) {
                                    return Some(d);
                                }
                            }
                            _ => {
                                return Some(format!(
                                    "bucket {}: key {} is a value on one side and a bucket on the other",
                                    path,
                                    show(ka)
                                ))
                            }
                        }
                    }
                }
            }
        }
        rec(self, other, "", compare_root_counter)
    }
}
