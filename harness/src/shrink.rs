//! Greedy history shrinker: keeps a violation's signature while removing
//! transactions and operations, so that replay files are small enough to read.
use crate::ops::*;

pub fn shrink(h: &History, budget: usize, mut still_fails: impl FnMut(&History) -> bool) -> History {
    let mut cur = h.clone();
    let mut left = budget;
    // shrinking is cosmetic (smaller replay files): never spend more than half a minute on one witness
    let deadline = std::time::Instant::now() + std::time::Duration::from_secs(30);
    macro_rules! attempt {
        ($cand:expr) => {{
            if left > 0 && std::time::Instant::now() > deadline {
                left = 0;
            }
            if left == 0 {
                false
            } else {
                left -= 1;
                let c: History = $cand;
                if still_fails(&c) {
                    cur = c;
                    true
                } else {
                    false
                }
            }
        }};
    }
    // 1. drop trailing transactions
    while cur.txs.len() > 1 {
        let mut c = cur.clone();
        c.txs.pop();
        if !attempt!(c) {
            break;
        }
    }
    // 2. drop whole transactions (from the front)
    let mut i = 0;
    while i < cur.txs.len() && cur.txs.len() > 1 {
        let mut c = cur.clone();
        c.txs.remove(i);
        if !attempt!(c) {
            i += 1;
        }
    }
    // 3. blank out chunks of operations, large chunks first
    for ti in 0..cur.txs.len() {
        let n = cur.txs[ti].ops.len();
        let mut chunk = (n / 2).max(1);
        loop {
            let mut start = 0;
            while start < cur.txs[ti].ops.len() {
                let end = (start + chunk).min(cur.txs[ti].ops.len());
                let mut c = cur.clone();
                let mut changed = false;
                for op in c.txs[ti].ops[start..end].iter_mut() {
                    if !matches!(op, Op::Skip { .. }) {
                        *op = Op::Skip {
                            slot: op.takes_slot(),
                        };
                        changed = true;
                    }
                }
                if changed {
                    let _ = attempt!(c);
                }
                start = end;
            }
            if chunk == 1 || left == 0 {
                break;
            }
            chunk = (chunk / 2).max(1);
        }
    }
    // 4. no reopen / shorter values where it does not matter
    for ti in 0..cur.txs.len() {
        if cur.txs[ti].reopen {
            let mut c = cur.clone();
            c.txs[ti].reopen = false;
            let _ = attempt!(c);
        }
    }
    // 5. remove placeholders that do not hold a handle slot; renumbering is not needed
    let mut c = cur.clone();
    for t in c.txs.iter_mut() {
        t.ops.retain(|op| !matches!(op, Op::Skip { slot: false }));
    }
    let _ = attempt!(c);
    cur.origin = format!("{} (shrunk from {} ops)", h.origin, h.n_ops());
    cur
}
