//! C07 (part) – an iteration that is under way when the transaction mutates entries AHEAD of it
//! must reflect those mutations: "at every point in the transaction" the scan shows the
//! transaction's own puts, deletes and bucket creations / deletions.
//!
//! A cursor / seeked cursor / range / kv_pairs / buckets iterator is positioned (at least one entry
//! consumed, so its position is a definite key `pos`), then the transaction mutates only keys that
//! sort strictly after `pos` (inserts between existing keys, overwrites with values of any size,
//! deletes, bucket creations and deletions, writes into a nested bucket), then the SAME iterator is
//! driven to its end.  Expected, from a BTreeMap model: exactly the model's entries after `pos`
//! (within the range / filter), with the values as they are now.  Entries at or before `pos` are
//! never touched, so no index the iterator holds is invalidated; what the iteration does when
//! entries behind its position change is promised by no property and is not judged.
use crate::report::{Ctx, Shard};
use crate::util::{self, Rng, Scratch};
use jammdb::{Bucket, Data, OpenOptions};
use serde::{Deserialize, Serialize};
use std::collections::BTreeMap;

#[derive(Clone, Debug, Serialize, Deserialize)]
pub struct Case {
    pub seed: u64,
    pub n_keys: usize,
    pub vlen: usize,
    pub kind: u8,
    pub reopen: bool,
    pub pre_mutations: usize,
}

#[derive(Clone, Debug, PartialEq, Eq)]
enum E {
    V(Vec<u8>),
    /// nested bucket with its own small contents
    B(BTreeMap<Vec<u8>, Vec<u8>>),
}

fn val(tag: u64, len: usize) -> Vec<u8> {
    crate::ops::V { tag, len }.bytes()
}

fn key(i: usize) -> Vec<u8> {
    format!("k{:05}", i * 10).into_bytes()
}

fn item(d: &Data) -> (Vec<u8>, Option<Vec<u8>>) {
    match d {
        Data::KeyValue(kv) => (kv.key().to_vec(), Some(kv.value().to_vec())),
        Data::Bucket(b) => (b.name().to_vec(), None),
    }
}

fn want_items(m: &BTreeMap<Vec<u8>, E>, after: Option<&[u8]>, hi: Option<&[u8]>, filter: u8) -> Vec<(Vec<u8>, Option<Vec<u8>>)> {
    m.iter()
        .filter(|(k, _)| after.map(|a| k.as_slice() > a).unwrap_or(true))
        .filter(|(k, _)| hi.map(|h| k.as_slice() < h).unwrap_or(true))
        .filter(|(_, e)| match filter {
            1 => matches!(e, E::V(_)),
            2 => matches!(e, E::B(_)),
            _ => true,
        })
        .map(|(k, e)| (k.clone(), match e { E::V(v) => Some(v.clone()), E::B(_) => None }))
        .collect()
}

/// apply `n` random mutations to keys strictly greater than `pos` (or anywhere when `pos` is None)
fn mutate(b: &Bucket, m: &mut BTreeMap<Vec<u8>, E>, rng: &mut Rng, pos: Option<&[u8]>, n: usize, ps: usize, log: &mut Vec<String>) -> Result<(), String> {
    for _ in 0..n {
        crate::report::progress();
        let ahead: Vec<Vec<u8>> = m.keys().filter(|k| pos.map(|p| k.as_slice() > p).unwrap_or(true)).cloned().collect();
        let choice = rng.below(10);
        match choice {
            0 | 1 | 2 => {
                // insert a new key right after an existing one ahead (or after pos itself)
                let mut base: Vec<u8> = if ahead.is_empty() || rng.chance(1, 5) { pos.map(|p| p.to_vec()).unwrap_or_else(|| b"k".to_vec()) } else { rng.pick(&ahead).clone() };
                base.push(b'0' + rng.below(10) as u8);
                if matches!(m.get(&base), Some(E::B(_))) {
                    continue;
                }
                let len = *rng.pick(&[0usize, 5, 40, 300, ps - 100, 2 * ps + 17]);
                let v = val(rng.next(), len);
                log.push(format!("put new {} ({} B)", util::show(&base), len));
                b.put(base.clone(), v.clone()).map_err(|e| format!("put: {}", e))?;
                m.insert(base, E::V(v));
            }
            3 | 4 => {
                // overwrite an existing pair ahead
                let ks: Vec<&Vec<u8>> = ahead.iter().filter(|k| matches!(m.get(*k), Some(E::V(_)))).collect();
                if ks.is_empty() {
                    continue;
                }
                let k = (*rng.pick(&ks)).clone();
                let len = *rng.pick(&[0usize, 7, 60, 500, ps, 3 * ps]);
                let v = val(rng.next(), len);
                log.push(format!("overwrite {} ({} B)", util::show(&k), len));
                b.put(k.clone(), v.clone()).map_err(|e| format!("put: {}", e))?;
                m.insert(k, E::V(v));
            }
            5 | 6 => {
                // delete pairs ahead: one, or a run of consecutive ones (empties whole leaves)
                let ks: Vec<Vec<u8>> = ahead.iter().filter(|k| matches!(m.get(*k), Some(E::V(_)))).cloned().collect();
                if ks.is_empty() {
                    continue;
                }
                let start = rng.usize(ks.len());
                let run = if rng.chance(1, 3) { 1 + rng.usize(40) } else { 1 };
                for k in ks.iter().skip(start).take(run) {
                    log.push(format!("delete {}", util::show(k)));
                    b.delete(k.clone()).map_err(|e| format!("delete: {}", e))?;
                    m.remove(k);
                }
            }
            7 => {
                // create a bucket ahead and put something into it
                let mut base: Vec<u8> = if ahead.is_empty() { pos.map(|p| p.to_vec()).unwrap_or_else(|| b"k".to_vec()) } else { rng.pick(&ahead).clone() };
                base.extend_from_slice(b"B");
                if m.contains_key(&base) {
                    continue;
                }
                log.push(format!("create bucket {}", util::show(&base)));
                let nb = b.create_bucket(base.clone()).map_err(|e| format!("create_bucket: {}", e))?;
                let mut inner = BTreeMap::new();
                for j in 0..rng.below(4) {
                    let v = val(rng.next(), 30);
                    nb.put(vec![b'i', j as u8], v.clone()).map_err(|e| format!("put: {}", e))?;
                    inner.insert(vec![b'i', j as u8], v);
                }
                m.insert(base, E::B(inner));
            }
            8 => {
                // delete a bucket ahead
                let ks: Vec<&Vec<u8>> = ahead.iter().filter(|k| matches!(m.get(*k), Some(E::B(_)))).collect();
                if ks.is_empty() {
                    continue;
                }
                let k = (*rng.pick(&ks)).clone();
                log.push(format!("delete bucket {}", util::show(&k)));
                b.delete_bucket(k.clone()).map_err(|e| format!("delete_bucket: {}", e))?;
                m.remove(&k);
            }
            _ => {
                // write into a nested bucket ahead (its entry in this bucket only changes at commit)
                let ks: Vec<&Vec<u8>> = ahead.iter().filter(|k| matches!(m.get(*k), Some(E::B(_)))).collect();
                if ks.is_empty() {
                    continue;
                }
                let k = (*rng.pick(&ks)).clone();
                let nb = b.get_bucket(k.clone()).map_err(|e| format!("get_bucket: {}", e))?;
                let v = val(rng.next(), *rng.pick(&[10usize, 400, 2 * ps]));
                let ik = vec![b'n', rng.below(5) as u8];
                log.push(format!("put into nested {}", util::show(&k)));
                nb.put(ik.clone(), v.clone()).map_err(|e| format!("put: {}", e))?;
                if let Some(E::B(inner)) = m.get_mut(&k) {
                    inner.insert(ik, v);
                }
            }
        }
    }
    Ok(())
}

fn verify_all(b: &Bucket, m: &BTreeMap<Vec<u8>, E>) -> Option<String> {
    let got: Vec<_> = b.cursor().map(|d| item(&d)).collect();
    let want = want_items(m, None, None, 0);
    if got != want {
        return Some(first_diff(&got, &want));
    }
    for (k, e) in m {
        if let E::B(inner) = e {
            let nb = match b.get_bucket(k.clone()) {
                Ok(nb) => nb,
                Err(e) => return Some(format!("nested bucket {}: {}", util::show(k), e)),
            };
            let got: Vec<(Vec<u8>, Vec<u8>)> = nb.kv_pairs().map(|kv| (kv.key().to_vec(), kv.value().to_vec())).collect();
            let want: Vec<(Vec<u8>, Vec<u8>)> = inner.iter().map(|(a, b)| (a.clone(), b.clone())).collect();
            if got != want {
                return Some(format!("contents of nested bucket {} differ", util::show(k)));
            }
        }
    }
    None
}

fn first_diff(got: &[(Vec<u8>, Option<Vec<u8>>)], want: &[(Vec<u8>, Option<Vec<u8>>)]) -> String {
    for i in 0..got.len().max(want.len()) {
        if got.get(i) != want.get(i) {
            let d = |x: Option<&(Vec<u8>, Option<Vec<u8>>)>| match x {
                None => "<end>".to_string(),
                Some((k, None)) => format!("bucket {}", util::show(k)),
                Some((k, Some(v))) => format!("{} = {} B (fnv {:x})", util::show(k), v.len(), util::fnv64(v)),
            };
            return format!("{} yielded, {} expected; first difference at #{}: got {}, expected {}", got.len(), want.len(), i, d(got.get(i)), d(want.get(i)));
        }
    }
    "equal".into()
}

pub const KINDS: [&str; 6] = ["cursor", "seeked-cursor", "range-from", "range-from-to", "kv_pairs", "buckets"];

/// Returns Err((signature, detail)) on a disagreement.
pub fn run_case(c: &Case, path: &std::path::Path, st: &mut BTreeMap<String, u64>) -> Result<(), (String, String)> {
    crate::report::progress();
    let ps = 1024usize;
    let mut rng = Rng::new(c.seed);
    let _ = std::fs::remove_file(path);
    let open = || OpenOptions::new().pagesize(ps as u64).num_pages(64).open(path);
    let mut m: BTreeMap<Vec<u8>, E> = BTreeMap::new();
    let e = |w: &str, e: jammdb::Error| ("live:setup".to_string(), format!("{}: {}", w, e));
    let mut db = open().map_err(|x| e("open", x))?;
    {
        let tx = db.tx(true).map_err(|x| e("tx", x))?;
        let b = tx.create_bucket("live").map_err(|x| e("create", x))?;
        for i in 0..c.n_keys {
            let k = key(i);
            if i % 7 == 3 {
                let nb = b.create_bucket(k.clone()).map_err(|x| e("create nested", x))?;
                let v = val(i as u64, 20);
                nb.put(b"i0".to_vec(), v.clone()).map_err(|x| e("put", x))?;
                m.insert(k, E::B([(b"i0".to_vec(), v)].into_iter().collect()));
            } else {
                let v = val(i as u64, c.vlen + (i * 13) % 40);
                b.put(k.clone(), v.clone()).map_err(|x| e("put", x))?;
                m.insert(k, E::V(v));
            }
        }
        tx.commit().map_err(|x| e("commit", x))?;
    }
    if c.reopen {
        drop(db);
        db = open().map_err(|x| e("reopen", x))?;
    }
    let kind = KINDS[c.kind as usize % KINDS.len()];
    let mut log: Vec<String> = Vec::new();
    let res = util::catch(|| -> Result<(), (String, String)> {
        let tx = db.tx(true).map_err(|x| e("tx", x))?;
        let b = tx.get_bucket("live").map_err(|x| e("get_bucket", x))?;
        // mutations anywhere before the iterator exists (some leaves are already nodes)
        mutate(&b, &mut m, &mut rng, None, c.pre_mutations, ps, &mut log).map_err(|d| ("live:setup".to_string(), d))?;
        log.push("-- iterator created".into());
        let all = want_items(&m, None, None, 0);
        if all.len() < 2 {
            return Ok(());
        }
        // where the iteration starts and (for ranges) ends
        let start_idx = if kind == "cursor" || kind == "kv_pairs" || kind == "buckets" { 0 } else { rng.usize(all.len() - 1) };
        let lo_key: Vec<u8> = all[start_idx].0.clone();
        let hi_key: Option<Vec<u8>> = if kind == "range-from-to" { Some(all[(start_idx + 1 + rng.usize(all.len() - start_idx)).min(all.len() - 1)].0.clone()) } else { None };
        let filter = match kind { "kv_pairs" => 1, "buckets" => 2, _ => 0 };
        // the model's view of the whole iteration before any mid-way mutation
        let before: Vec<_> = want_items(&m, None, hi_key.as_deref(), filter).into_iter().filter(|(k, _)| k >= &lo_key || start_idx == 0).collect();
        if before.is_empty() {
            return Ok(());
        }
        let consume = 1 + rng.usize(before.len());
        let lo_slice: &[u8] = &lo_key;
        let hi_vec = hi_key.clone().unwrap_or_default();
        let hi_slice: &[u8] = &hi_vec;
        let mut it: Box<dyn Iterator<Item = (Vec<u8>, Option<Vec<u8>>)> + '_> = match kind {
            "cursor" => Box::new(b.cursor().map(|d| item(&d))),
            "seeked-cursor" => {
                let mut c = b.cursor();
                c.seek(lo_slice);
                Box::new(c.map(|d| item(&d)))
            }
            "range-from" => Box::new(b.range(lo_slice..).map(|d| item(&d))),
            "range-from-to" => Box::new(b.range(lo_slice..hi_slice).map(|d| item(&d))),
            "kv_pairs" => Box::new(b.kv_pairs().map(|kv| (kv.key().to_vec(), Some(kv.value().to_vec())))),
            _ => Box::new(b.buckets().map(|(n, _)| (n.name().to_vec(), None))),
        };
        let mut got: Vec<(Vec<u8>, Option<Vec<u8>>)> = Vec::new();
        for _ in 0..consume {
            match it.next() {
                Some(x) => got.push(x),
                None => break,
            }
        }
        if got[..] != before[..got.len().min(before.len())] || got.len() != consume.min(before.len()) {
            return Err((format!("live:{}:wrong-before-mutation", kind), first_diff(&got, &before)));
        }
        let pos = got.last().unwrap().0.clone();
        let n_mut = 1 + rng.usize(6);
        log.push(format!("-- {} entries consumed, position {}", got.len(), util::show(&pos)));
        mutate(&b, &mut m, &mut rng, Some(&pos), n_mut, ps, &mut log).map_err(|d| ("live:setup".to_string(), d))?;
        *st.entry(format!("live_{}", kind)).or_insert(0) += 1;
        *st.entry("live_mutations_ahead_of_an_open_iterator".into()).or_insert(0) += n_mut as u64;
        // the rest of the SAME iterator
        let mut rest: Vec<(Vec<u8>, Option<Vec<u8>>)> = Vec::new();
        for x in it.by_ref() {
            rest.push(x);
            if rest.len() > m.len() + 8 {
                break;
            }
        }
        let after_end = (it.next().is_some() as u8) + (it.next().is_some() as u8);
        drop(it);
        let want = want_items(&m, Some(&pos), hi_key.as_deref(), filter);
        if rest != want {
            let what = if rest.len() < want.len() { "missing" } else if rest.len() > want.len() { "extra" } else { "wrong" };
            return Err((format!("live:{}:{}-after-mutation-ahead", kind, what), format!("after consuming {} entries (position {}) and mutating ahead: {}", got.len(), util::show(&pos), first_diff(&rest, &want))));
        }
        if after_end > 0 {
            return Err((format!("live:{}:yields-after-end", kind), "next() after the end of an iteration that straddled mutations yielded an entry".into()));
        }
        *st.entry("live_entries_compared_after_mutation".into()).or_insert(0) += rest.len() as u64;
        // a fresh look at everything, then commit and look again
        if let Some(d) = verify_all(&b, &m) {
            return Err(("live:fresh-scan-differs".into(), d));
        }
        drop(b);
        tx.commit().map_err(|x| ("live:commit-fails".to_string(), format!("{}", x)))?;
        let tx = db.tx(false).map_err(|x| e("tx", x))?;
        let b = tx.get_bucket("live").map_err(|x| e("get_bucket", x))?;
        if let Some(d) = verify_all(&b, &m) {
            return Err(("live:after-commit-differs".into(), d));
        }
        Ok(())
    });
    let _ = std::fs::remove_file(path);
    match res {
        Ok(Ok(())) => Ok(()),
        Ok(Err((sig, d))) => Err((sig, format!("[{} | {} keys] {} || steps: {}", kind, c.n_keys, d, log.join("; ")))),
        Err(p) => Err((format!("live:{}:{}", kind, util::panic_signature(&p)), format!("[{} | {} keys] panic at {}:{}: {} || steps: {}", kind, c.n_keys, p.file, p.line, p.msg, log.join("; ")))),
    }
}

/// One uncommitted leaf with more entries than fit in 16 bits: a fresh bucket receives 70 000 pairs in
/// a single transaction (nothing is split before commit), and point lookups, seeks, ranges, a delete and
/// a full scan at positions on both sides of 65 536 must agree with the model inside that transaction.
pub fn huge_leaf_case(path: &std::path::Path, st: &mut BTreeMap<String, u64>) -> Result<(), (String, String)> {
    crate::report::progress();
    let _ = std::fs::remove_file(path);
    let n: usize = 70_000;
    let key = |i: usize| format!("h{:06}", i).into_bytes();
    let res = util::catch(|| -> Result<(), (String, String)> {
        let e = |w: &str, e: jammdb::Error| ("live:setup".to_string(), format!("{}: {}", w, e));
        let bad = |what: &str, d: String| Err((format!("live:huge-leaf:{}", what), d));
        let db = OpenOptions::new().pagesize(4096).num_pages(64).open(path).map_err(|x| e("open", x))?;
        let tx = db.tx(true).map_err(|x| e("tx", x))?;
        let b = tx.create_bucket("huge").map_err(|x| e("create", x))?;
        for i in 0..n {
            b.put(key(i), (i as u32).to_le_bytes().to_vec()).map_err(|x| e("put", x))?;
            if i % 4096 == 0 {
                crate::report::progress();
            }
        }
        let probe: Vec<usize> = vec![0, 1, 255, 256, 32767, 32768, 65534, 65535, 65536, 65537, 65546, 66000, n - 2, n - 1];
        for &i in &probe {
            let got = b.get_kv(key(i)).map(|kv| (kv.key().to_vec(), kv.value().to_vec()));
            if got != Some((key(i), (i as u32).to_le_bytes().to_vec())) {
                return bad("get", format!("get_kv(entry #{}) returned {:?}", i, got.map(|(k, _)| util::show(&k))));
            }
            let mut c = b.cursor();
            if !c.seek(key(i)) {
                return bad("seek", format!("seek(entry #{}) says the key does not exist", i));
            }
            let first = c.next().map(|d| item(&d).0);
            if first != Some(key(i)) {
                return bad("seek", format!("iteration after seek(entry #{}) starts at {:?}", i, first.map(|k| util::show(&k))));
            }
            let k0 = key(i);
            let r: Vec<Vec<u8>> = b.range(k0.as_slice()..).take(3).map(|d| item(&d).0).collect();
            let want: Vec<Vec<u8>> = (i..n.min(i + 3)).map(key).collect();
            if r != want {
                return bad("range", format!("range(entry #{}..) starts with {:?}", i, r.iter().map(|k| util::show(k)).collect::<Vec<_>>()));
            }
        }
        // a delete beyond position 65 536 removes that pair and nothing else
        let del = 65_546usize;
        let d = b.delete(key(del)).map(|kv| kv.key().to_vec()).map_err(|x| ("live:huge-leaf:delete".to_string(), format!("{}", x)))?;
        if d != key(del) {
            return bad("delete", format!("delete(entry #{}) returned the pair of {}", del, util::show(&d)));
        }
        let mut count = 0usize;
        let mut expect = 0usize;
        for d in b.cursor() {
            if expect == del {
                expect += 1;
            }
            let k = item(&d).0;
            if k != key(expect) {
                return bad("scan", format!("full scan: entry #{} is {} instead of {}", count, util::show(&k), util::show(&key(expect))));
            }
            count += 1;
            expect += 1;
        }
        if count != n - 1 {
            return bad("scan", format!("full scan yields {} entries, model {}", count, n - 1));
        }
        drop(b);
        tx.commit().map_err(|x| ("live:huge-leaf:commit".to_string(), format!("{}", x)))?;
        let tx = db.tx(false).map_err(|x| e("tx", x))?;
        let b = tx.get_bucket("huge").map_err(|x| e("get", x))?;
        if b.cursor().count() != n - 1 || b.get(key(del)).is_some() || b.get(key(65_536)).is_none() {
            return bad("after-commit", "contents after commit differ from the model".into());
        }
        *st.entry("live_huge_leaf_entries".into()).or_insert(0) += n as u64;
        Ok(())
    });
    let _ = std::fs::remove_file(path);
    match res {
        Ok(r) => r,
        Err(p) => Err((format!("live:huge-leaf:{}", util::panic_signature(&p)), format!("panic at {}:{}: {}", p.file, p.line, p.msg))),
    }
}

pub fn run(ctx: &Ctx, shard: &mut Shard) {
    let scratch = Scratch::new("C07live");
    let path = scratch.fresh("live");
    let mut st: BTreeMap<String, u64> = BTreeMap::new();
    if let Some(rp) = &ctx.replay {
        let doc: serde_json::Value = serde_json::from_slice(&std::fs::read(rp).expect("read replay")).expect("parse");
        if let Ok(c) = serde_json::from_value::<Case>(doc["case"]["live"].clone()) {
            shard.evaluations += 1;
            if let Err((sig, d)) = run_case(&c, &path, &mut st) {
                shard.violation(ctx, &sig, &d, &doc["case"]);
            }
        }
        return;
    }
    let n = ctx.scale(if ctx.thorough() { 6000 } else { 400 });
    let mut rng = Rng::new(ctx.shard_seed() ^ 0x11fe);
    for i in 0..n {
        let n_keys = *rng.pick(&[5usize, 14, 40, 40, 160, 160, 700]);
        let c = Case { seed: rng.next(), n_keys, vlen: *rng.pick(&[8usize, 40, 90]), kind: (i % 6) as u8, reopen: rng.chance(1, 3), pre_mutations: if rng.chance(1, 2) { 0 } else { rng.usize(8) } };
        shard.evaluations += 1;
        let hh = util::fnv64(format!("live|{:?}", c).as_bytes());
        shard.distinct.insert(hh);
        shard.nontrivial.insert(hh);
        match run_case(&c, &path, &mut st) {
            Ok(()) => {}
            // (a set-up step that fails is the database failing on a valid call: reported, see DESIGN section 10)
            Err((sig, d)) if sig == "live:setup" => shard.violation(ctx, "workload:live:a-valid-call-failed", &d, &serde_json::json!({"kind": "live", "live": c})),
            Err((sig, d)) => shard.violation(ctx, &sig, &d, &serde_json::json!({"kind": "live", "live": c})),
        }
    }
    if ctx.shard == 5 % ctx.nshards {
        shard.evaluations += 1;
        match huge_leaf_case(&path, &mut st) {
            Ok(()) => {}
            Err((sig, d)) if sig == "live:setup" => shard.violation(ctx, "workload:live:a-valid-call-failed", &d, &serde_json::json!({"kind": "live-huge-leaf"})),
            Err((sig, d)) => shard.violation(ctx, &sig, &d, &serde_json::json!({"kind": "live-huge-leaf"})),
        }
    }
    for (k, v) in st {
        shard.count(&k, v);
    }
}
