//! Lock-step executor: runs a history against the real database and against the
//! reference model, comparing every return value, and (depending on the
//! configuration) the whole visible state after every operation, the state a
//! fresh transaction sees after every commit, the file bytes through the
//! independent parser, and the traces left by rolled-back transactions.
use crate::fileck;
use crate::gen::{HState, Handles};
use crate::model::{ErrKind, Item, MBucket};
use crate::ops::*;
use crate::util::{self, show};
use jammdb::{Bucket, Data, OpenOptions, Tx, DB};
use std::collections::{BTreeMap, BTreeSet};
use std::ops::Bound;
use std::path::Path;

#[derive(Clone, Debug, Default)]
pub struct ExecCfg {
    /// compare the full read API with the model after every single operation (C07)
    pub verify_each_op: bool,
    /// after each commit: a fresh read-only transaction must see the model (C01)
    pub verify_after_commit: bool,
    /// after each commit: independent parser + DB::check on the file (C05)
    pub fileck_each_commit: bool,
    /// around every rolled-back transaction: file bytes, shared state (C06)
    pub rollback_trace: bool,
    /// re-check values handed back by put/get at the end of the transaction
    pub recheck_handed_back: bool,
    /// after every call that returned an error: the transaction's view must be unchanged (C06)
    pub verify_after_error: bool,
    /// record (contents digest, reachable pages) after every commit (C06 twin runs)
    pub trace_commits: bool,
}

#[derive(Clone, Copy, Debug, PartialEq, Eq, Hash, PartialOrd, Ord)]
pub enum Class {
    OpResult,
    ReadInTx,
    Panic,
    UnexpectedErr,
    PostCommit,
    Reopen,
    Fileck,
    DbCheck,
    HandedBack,
    RollbackTrace,
    MisuseNoPanic,
    Open,
    ErrChanged,
}

#[derive(Clone, Debug)]
pub struct Violation {
    pub class: Class,
    pub sig: String,
    pub detail: String,
    pub tx: usize,
    pub op: Option<usize>,
}

#[derive(Clone, Debug, Default)]
pub struct Stats {
    pub handles_dropped_mid_transaction: u64,
    pub pinned_histories_cut_short_by_the_growth_guard: u64,
    pub pinned_readers_opened: u64,
    pub commits_with_a_pinned_reader: u64,
    pub op_results: BTreeMap<(String, String), u64>,
    pub ops: u64,
    pub commits: u64,
    pub rollbacks: u64,
    pub reopens: u64,
    pub expected_panics: u64,
    pub full_verifications: u64,
    pub fileck_runs: u64,
    pub fileck_rule_evals: BTreeMap<String, u64>,
    pub pages_classified: u64,
    pub shapes: BTreeSet<(u32, u32, u32, u32)>,
    pub splits: u64,
    pub merges: u64,
    pub depth_up: u64,
    pub depth_down: u64,
    pub growths: u64,
    pub overflow_commits: u64,
    pub multi_bucket_delete_txs: u64,
    pub nested_then_ancestor_delete_txs: u64,
    pub rollback_checks: u64,
    pub max_depth: u32,
    pub how_used: BTreeMap<String, u64>,
    pub key_classes: BTreeMap<String, u64>,
    pub val_classes: BTreeMap<String, u64>,
    pub commit_trace: Vec<(u64, u64)>,
    pub error_calls_verified: u64,
    pub freelist_fill: BTreeMap<String, u64>,
}

impl Stats {
    pub fn merge(&mut self, o: &Stats) {
        for (k, v) in &o.op_results {
            *self.op_results.entry(k.clone()).or_insert(0) += v;
        }
        self.pinned_readers_opened += o.pinned_readers_opened;
        self.pinned_histories_cut_short_by_the_growth_guard += o.pinned_histories_cut_short_by_the_growth_guard;
        self.commits_with_a_pinned_reader += o.commits_with_a_pinned_reader;
        self.handles_dropped_mid_transaction += o.handles_dropped_mid_transaction;
        self.ops += o.ops;
        self.commits += o.commits;
        self.rollbacks += o.rollbacks;
        self.reopens += o.reopens;
        self.expected_panics += o.expected_panics;
        self.full_verifications += o.full_verifications;
        self.fileck_runs += o.fileck_runs;
        for (k, v) in &o.fileck_rule_evals {
            *self.fileck_rule_evals.entry(k.clone()).or_insert(0) += v;
        }
        self.pages_classified += o.pages_classified;
        self.shapes.extend(o.shapes.iter().cloned());
        self.splits += o.splits;
        self.merges += o.merges;
        self.depth_up += o.depth_up;
        self.depth_down += o.depth_down;
        self.growths += o.growths;
        self.overflow_commits += o.overflow_commits;
        self.multi_bucket_delete_txs += o.multi_bucket_delete_txs;
        self.nested_then_ancestor_delete_txs += o.nested_then_ancestor_delete_txs;
        self.rollback_checks += o.rollback_checks;
        self.max_depth = self.max_depth.max(o.max_depth);
        self.error_calls_verified += o.error_calls_verified;
        for (k, v) in &o.freelist_fill {
            *self.freelist_fill.entry(k.clone()).or_insert(0) += v;
        }
        for (k, v) in &o.how_used {
            *self.how_used.entry(k.clone()).or_insert(0) += v;
        }
        for (k, v) in &o.key_classes {
            *self.key_classes.entry(k.clone()).or_insert(0) += v;
        }
        for (k, v) in &o.val_classes {
            *self.val_classes.entry(k.clone()).or_insert(0) += v;
        }
    }
    /// "non-trivial": at least one structural change of a tree was observed
    pub fn structural(&self) -> bool {
        self.splits + self.merges + self.depth_up + self.depth_down + self.growths > 0
            || self.overflow_commits > 0
    }
}

#[derive(Clone, Debug, Default)]
pub struct Outcome {
    pub violations: Vec<Violation>,
    /// history cut short (panic / unexpected error); later steps not executed
    pub aborted: bool,
    pub stats: Stats,
}

// ---------------------------------------------------------------------------
// reading the real database into model form

pub fn item_of(d: &Data) -> Item {
    match d {
        Data::KeyValue(kv) => {
            // every accessor of the pair must agree: key()/value(), kv(), and the enum-level key() / kv() / is_kv()
            let (k2, v2) = kv.kv();
            if k2 != kv.key() || v2 != kv.value() || d.key() != kv.key() || !d.is_kv() || d.kv().value() != kv.value() {
                return Item::Kv(b"<accessors of one KVPair disagree>".to_vec(), kv.key().to_vec());
            }
            Item::Kv(kv.key().to_vec(), kv.value().to_vec())
        }
        Data::Bucket(b) => {
            if d.is_kv() || d.key() != b.name() {
                return Item::Bucket(b"<accessors of one BucketName disagree>".to_vec());
            }
            Item::Bucket(b.name().to_vec())
        }
    }
}

pub fn dump_bucket(b: &Bucket, depth: usize) -> Result<MBucket, String> {
    if depth > 12 {
        return Err("bucket nesting deeper than 12".into());
    }
    let mut out = MBucket {
        next_int: b.next_int(),
        ..Default::default()
    };
    let mut items: Vec<Item> = Vec::new();
    let mut names: Vec<Option<jammdb::BucketName>> = Vec::new();
    for d in b.cursor() {
        let it = item_of(&d);
        // (checked while iterating: a cursor that wraps around or repeats itself ends here, not in the OOM killer)
        if let Some(prev) = items.last() {
            if prev.key() >= it.key() {
                return Err(format!("cursor order: {} then {}", show(prev.key()), show(it.key())));
            }
        }
        items.push(it);
        names.push(match d {
            Data::Bucket(bn) => Some(bn),
            _ => None,
        });
    }
    for (idx, it) in items.into_iter().enumerate() {
        match it {
            Item::Kv(k, v) => {
                out.entries.insert(k, crate::model::Entry::Val(v));
            }
            Item::Bucket(name) => {
                // the listed name itself is a valid argument (by reference, by value) as is a copy of its bytes
                let nb = match (idx % 3, names[idx].take()) {
                    (0, Some(bn)) => b.get_bucket(&bn),
                    (1, Some(bn)) => b.get_bucket(bn),
                    _ => b.get_bucket(name.clone()),
                }
                .map_err(|e| format!("get_bucket({}) on a listed bucket: {}", show(&name), e))?;
                let sub = dump_bucket(&nb, depth + 1)?;
                out.entries.insert(name, crate::model::Entry::Bucket(sub));
            }
        }
    }
    Ok(out)
}

/// Everything visible through a transaction (the root holds only buckets).
pub fn dump_tx(tx: &Tx) -> Result<MBucket, String> {
    let mut out = MBucket::default();
    let mut names: Vec<Vec<u8>> = Vec::new();
    for (name, _b) in tx.buckets() {
        let n = name.name().to_vec();
        if let Some(prev) = names.last() {
            if *prev >= n {
                return Err(format!("tx.buckets() order: {} then {}", show(prev), show(&n)));
            }
        }
        names.push(n);
    }
    for name in names {
        let b = tx
            .get_bucket(name.clone())
            .map_err(|e| format!("tx.get_bucket({}) on a listed bucket: {}", show(&name), e))?;
        let sub = dump_bucket(&b, 1)?;
        // `for entry in bucket` (IntoIterator for Bucket) must list what `bucket.cursor()` lists
        let mut n_into = 0usize;
        for d in b {
            n_into += 1;
            if n_into > sub.entries.len() + 8 {
                break;
            }
            let it = item_of(&d);
            if !sub.entries.contains_key(it.key()) {
                return Err(format!("`for entry in bucket` on {} yields {} which cursor() does not list", show(&name), show(it.key())));
            }
        }
        if n_into != sub.entries.len() {
            return Err(format!("`for entry in bucket` on {} yields {} entries, cursor() {}", show(&name), n_into, sub.entries.len()));
        }
        out.entries.insert(name, crate::model::Entry::Bucket(sub));
    }
    Ok(out)
}

/// Reopen an existing database with a different `num_pages` (documented: "Setting num_pages when
/// opening an existing database has no effect").
pub fn reopen_db(path: &Path, h: &History, k: u64) -> Result<DB, jammdb::Error> {
    let np = match k % 4 {
        0 => h.num_pages,
        1 => h.num_pages * 4,
        2 => 1000,
        _ => 32,
    };
    OpenOptions::new()
        .pagesize(h.pagesize)
        .num_pages(np.max(4))
        .strict_mode(h.strict)
        .mmap_populate(h.populate)
        .direct_writes(DIRECT_WRITES.with(|d| d.get()))
        .open(path)
}

thread_local! {
    /// open every database of this thread with `direct_writes(true)` (O_DIRECT); a fifth open option that
    /// no history carries, switched on around whole runs
    static DIRECT_WRITES: std::cell::Cell<bool> = const { std::cell::Cell::new(false) };
}

pub fn set_direct_writes(on: bool) {
    DIRECT_WRITES.with(|d| d.set(on));
}

pub fn open_db(path: &Path, h: &History) -> Result<DB, jammdb::Error> {
    OpenOptions::new()
        .pagesize(h.pagesize)
        .num_pages(h.num_pages)
        .strict_mode(h.strict)
        .mmap_populate(h.populate)
        .direct_writes(DIRECT_WRITES.with(|d| d.get()))
        .open(path)
}

// ---------------------------------------------------------------------------

macro_rules! with_tb {
    ($how:expr, $bytes:expr, |$k:ident| $body:expr) => {{
        let __b: &[u8] = $bytes;
        match $how {
            How::Slice | How::Listed => {
                let $k: &[u8] = __b;
                $body
            }
            How::Str => {
                let $k: &str = std::str::from_utf8(__b).expect("generator: Str on non-utf8");
                $body
            }
            How::String => {
                let $k: String = String::from_utf8(__b.to_vec()).expect("generator: String on non-utf8");
                $body
            }
            How::Vec => {
                let $k: Vec<u8> = __b.to_vec();
                $body
            }
            How::Bytes => {
                let $k: bytes::Bytes = bytes::Bytes::copy_from_slice(__b);
                $body
            }
            How::BytesRef => {
                let __tmp: bytes::Bytes = bytes::Bytes::copy_from_slice(__b);
                let $k: &bytes::Bytes = &__tmp;
                $body
            }
            How::Array => match __b.len() {
                0 => {
                    let $k: [u8; 0] = [];
                    $body
                }
                1 => {
                    let $k: [u8; 1] = __b.try_into().unwrap();
                    $body
                }
                2 => {
                    let $k: [u8; 2] = __b.try_into().unwrap();
                    $body
                }
                3 => {
                    let $k: [u8; 3] = __b.try_into().unwrap();
                    $body
                }
                4 => {
                    let $k: [u8; 4] = __b.try_into().unwrap();
                    $body
                }
                8 => {
                    let $k: [u8; 8] = __b.try_into().unwrap();
                    $body
                }
                16 => {
                    let $k: [u8; 16] = __b.try_into().unwrap();
                    $body
                }
                _ => {
                    let $k: Vec<u8> = __b.to_vec();
                    $body
                }
            },
        }
    }};
}

fn kind_str<T>(r: &Result<T, ErrKind>) -> String {
    match r {
        Ok(_) => "ok".into(),
        Err(e) => format!("{:?}", e),
    }
}

fn size_class(n: usize, ps: u64) -> &'static str {
    let ps = ps as usize;
    if n == 0 {
        "empty"
    } else if n <= 16 {
        "tiny"
    } else if n < ps / 2 {
        "sub-page"
    } else if n <= ps + 64 {
        "about-a-page"
    } else {
        "multi-page"
    }
}

pub struct Run<'c> {
    pub cfg: &'c ExecCfg,
    pub out: Outcome,
    pub ps: u64,
    pub cur_tx: usize,
    pub cur_op: Option<usize>,
    pub last_shape: Option<fileck::BucketShape>,
    pub last_file_len: u64,
    pub last_was_err: bool,
    /// C11: a failing commit is an expected outcome, recorded here instead of reported
    pub tolerate_commit_err: bool,
    pub last_commit_err: Option<String>,
}

impl<'c> Run<'c> {
    pub fn new(cfg: &'c ExecCfg, ps: u64) -> Run<'c> {
        Run {
            cfg,
            out: Outcome::default(),
            ps,
            cur_tx: 0,
            cur_op: None,
            last_shape: None,
            last_file_len: 0,
            last_was_err: false,
            tolerate_commit_err: false,
            last_commit_err: None,
        }
    }
}

impl<'c> Run<'c> {
    fn viol(&mut self, class: Class, sig: String, detail: String) {
        self.out.violations.push(Violation {
            class,
            sig,
            detail,
            tx: self.cur_tx,
            op: self.cur_op,
        });
    }

    fn record(&mut self, op: &str, kind: &str) {
        *self
            .out
            .stats
            .op_results
            .entry((op.to_string(), kind.to_string()))
            .or_insert(0) += 1;
    }

    /// compare an API result that carries no payload beyond ok / error kind
    fn cmp_unit<T>(
        &mut self,
        op: &Op,
        real: &Result<T, jammdb::Error>,
        want: &Result<(), ErrKind>,
    ) -> bool {
        let rk: Result<(), ErrKind> = match real {
            Ok(_) => Ok(()),
            Err(e) => Err(ErrKind::of(e)),
        };
        self.record(op.name(), &kind_str(&rk));
        self.last_was_err = rk.is_err();
        if &rk != want {
            let class = if matches!(rk, Err(ErrKind::Other)) {
                Class::UnexpectedErr
            } else {
                Class::OpResult
            };
            let detail = format!(
                "{:?}: model says {}, database says {}{}",
                op,
                kind_str(want),
                kind_str(&rk),
                match real {
                    Err(e) => format!(" ({})", e),
                    _ => String::new(),
                }
            );
            self.viol(
                class,
                format!("{}:{}->{}", op.name(), kind_str(want), kind_str(&rk)),
                detail,
            );
            return false;
        }
        true
    }

    fn cmp_items(&mut self, op: &Op, what: &str, real: &[Item], want: &[Item]) {
        if real != want {
            let mut detail = format!(
                "{:?} {}: {} items, model {} items",
                op,
                what,
                real.len(),
                want.len()
            );
            for i in 0..real.len().max(want.len()) {
                if real.get(i) != want.get(i) {
                    detail.push_str(&format!(
                        "; first difference at #{}: db {} / model {}",
                        i,
                        real.get(i).map(|x| show(x.key())).unwrap_or("<end>".into()),
                        want.get(i).map(|x| show(x.key())).unwrap_or("<end>".into()),
                    ));
                    break;
                }
            }
            let missing = want.len() > real.len();
            self.viol(
                Class::ReadInTx,
                format!(
                    "{}:{}:{}",
                    op.name(),
                    what,
                    if missing { "missing" } else { "wrong" }
                ),
                detail,
            );
        }
    }
}

/// Full comparison of what a transaction shows with a model state.
/// Returns a description of the first difference.
pub fn verify_tx_against(tx: &Tx, model: &MBucket, thorough_reads: bool) -> Option<String> {
    crate::report::progress();
    let dump = match dump_tx(tx) {
        Ok(d) => d,
        Err(e) => return Some(e),
    };
    if let Some(d) = dump.diff(model, false) {
        return Some(format!("cursor walk differs from the model: {}", d));
    }
    if thorough_reads {
        // point lookups, seeks and filtered iterators on every bucket
        for path in model.bucket_paths() {
            if path.is_empty() {
                continue;
            }
            let mb = model.at(&path).unwrap();
            let mut b = match tx.get_bucket(path[0].clone()) {
                Ok(b) => b,
                Err(e) => return Some(format!("get_bucket {}: {}", show(&path[0]), e)),
            };
            for p in &path[1..] {
                b = match b.get_bucket(p.clone()) {
                    Ok(nb) => nb,
                    Err(e) => return Some(format!("get_bucket {}: {}", show(p), e)),
                };
            }
            if let Some(d) = verify_bucket_reads(&b, mb) {
                return Some(format!("bucket {:?}: {}", path.iter().map(|p| show(p)).collect::<Vec<_>>(), d));
            }
        }
    }
    None
}

/// point gets on every key and on absent neighbours, seeks, kv_pairs/buckets.
pub fn verify_bucket_reads(b: &Bucket, mb: &MBucket) -> Option<String> {
    let mut probes: Vec<Vec<u8>> = Vec::new();
    for k in mb.entries.keys() {
        probes.push(k.clone());
        let mut a = k.clone();
        a.push(0);
        probes.push(a);
    }
    probes.push(vec![]);
    probes.push(vec![0xff; 3]);
    for k in &probes {
        let want = mb.item(k);
        let got = b.get(k.as_slice()).map(|d| item_of(&d));
        if got != want {
            return Some(format!(
                "get({}) = {:?}, model {:?}",
                show(k),
                got.as_ref().map(|i| show(i.key())),
                want.as_ref().map(|i| show(i.key()))
            ));
        }
        let want_kv = match &want {
            Some(Item::Kv(k, v)) => Some((k.clone(), v.clone())),
            _ => None,
        };
        let got_kv = b
            .get_kv(k.as_slice())
            .map(|kv| (kv.key().to_vec(), kv.value().to_vec()));
        if got_kv != want_kv {
            return Some(format!("get_kv({}) differs from the model", show(k)));
        }
    }
    // seek on a sample of probes (every 3rd) plus full tail check
    let all = mb.items();
    // the provided Iterator methods an implementation may override (a shortcut that looks at pages instead of
    // stepping must see the transaction's own changes as well)
    {
        let got = b.cursor().last().map(|d| item_of(&d));
        if got.as_ref() != all.last() {
            return Some(format!("cursor().last() = {:?}, model {:?}", got.as_ref().map(|i| show(i.key())), all.last().map(|i| show(i.key()))));
        }
        let n = b.cursor().count();
        if n != all.len() {
            return Some(format!("cursor().count() = {}, model {}", n, all.len()));
        }
        if !all.is_empty() {
            let k = all.len() / 2;
            let got = b.cursor().nth(k).map(|d| item_of(&d));
            if got.as_ref() != all.get(k) {
                return Some(format!("cursor().nth({}) = {:?}, model {:?}", k, got.as_ref().map(|i| show(i.key())), all.get(k).map(|i| show(i.key()))));
            }
        }
        let kvs: Vec<&Item> = all.iter().filter(|i| matches!(i, Item::Kv(..))).collect();
        let got = b.kv_pairs().last().map(|kv| kv.key().to_vec());
        if got.as_deref() != kvs.last().map(|i| i.key()) {
            return Some(format!("kv_pairs().last() = {:?}, model {:?}", got.as_ref().map(|k| show(k)), kvs.last().map(|i| show(i.key()))));
        }
        let nb = b.buckets().count();
        if nb != all.len() - kvs.len() {
            return Some(format!("buckets().count() = {}, model {}", nb, all.len() - kvs.len()));
        }
    }
    for (i, k) in probes.iter().enumerate() {
        if i % 3 != 0 && probes.len() > 12 {
            continue;
        }
        if let Some(d) = check_seek(b, mb, &all, k) {
            return Some(d);
        }
    }
    // range scans from a sample of probes: included / excluded start, bounded and unbounded end
    for (i, k) in probes.iter().enumerate() {
        if i % 4 != 1 && probes.len() > 10 {
            continue;
        }
        let hi = probes.get(i + 5).unwrap_or(k);
        let checks: [(Bound<&[u8]>, Bound<&[u8]>); 4] = [
            (Bound::Included(k.as_slice()), Bound::Unbounded),
            (Bound::Excluded(k.as_slice()), Bound::Unbounded),
            (Bound::Included(k.as_slice()), Bound::Excluded(hi.as_slice())),
            (Bound::Unbounded, Bound::Included(k.as_slice())),
        ];
        for (lo, hi) in checks.iter() {
            let got: Vec<Item> = b.range((*lo, *hi)).map(|d| item_of(&d)).collect();
            let want = mb.items_in(*lo, *hi);
            if got != want {
                return Some(format!(
                    "range({:?} {}, ..) yields {} items (first {}), model {} (first {})",
                    matches!(lo, Bound::Included(_)),
                    show(k),
                    got.len(),
                    got.first().map(|i| show(i.key())).unwrap_or("-".into()),
                    want.len(),
                    want.first().map(|i| show(i.key())).unwrap_or("-".into())
                ));
            }
        }
    }
    let kvs: Vec<Item> = b
        .kv_pairs()
        .map(|kv| Item::Kv(kv.key().to_vec(), kv.value().to_vec()))
        .collect();
    let want_kvs: Vec<Item> = all
        .iter()
        .filter(|i| matches!(i, Item::Kv(..)))
        .cloned()
        .collect();
    if kvs != want_kvs {
        return Some(format!(
            "kv_pairs() yields {} pairs, model {}",
            kvs.len(),
            want_kvs.len()
        ));
    }
    let bs: Vec<Item> = b
        .buckets()
        .map(|(n, _)| Item::Bucket(n.name().to_vec()))
        .collect();
    let want_bs: Vec<Item> = all
        .iter()
        .filter(|i| matches!(i, Item::Bucket(..)))
        .cloned()
        .collect();
    if bs != want_bs {
        return Some(format!(
            "buckets() yields {} buckets, model {}",
            bs.len(),
            want_bs.len()
        ));
    }
    None
}

/// seek(k): reported existence, and the iteration that follows.
pub fn check_seek(b: &Bucket, mb: &MBucket, all: &[Item], k: &[u8]) -> Option<String> {
    // a fresh cursor, a cursor that has already been iterated, and one that was positioned elsewhere before
    for prelude in 0..3u8 {
        if let Some(d) = check_seek_with(b, mb, all, k, prelude) {
            return Some(match prelude {
                0 => d,
                1 => format!("on a cursor that had already yielded entries: {}", d),
                _ => format!("on a cursor that had been positioned by an earlier seek: {}", d),
            });
        }
    }
    None
}

fn check_seek_with(b: &Bucket, mb: &MBucket, all: &[Item], k: &[u8], prelude: u8) -> Option<String> {
    let mut c = b.cursor();
    match prelude {
        1 => {
            let _ = c.next();
            let _ = c.next();
        }
        2 => {
            if let Some(last) = all.last() {
                let _ = c.seek(last.key());
                let _ = c.next();
            }
        }
        _ => {}
    }
    let exists = c.seek(k);
    let want_exists = mb.entries.contains_key(k);
    if exists != want_exists {
        return Some(format!(
            "seek({}) reports exists={}, model {}",
            show(k),
            exists,
            want_exists
        ));
    }
    if let Some(cur) = c.current() {
        let ck = cur.key().to_vec();
        if want_exists {
            if ck != k {
                return Some(format!(
                    "seek({}) found the key but current() is {}",
                    show(k),
                    show(&ck)
                ));
            }
        } else {
            let p = mb.pred(k);
            let s = mb.succ(k);
            if Some(&ck) != p.as_ref() && Some(&ck) != s.as_ref() {
                return Some(format!(
                    "seek({}) (absent): current() is {}, neither predecessor nor successor",
                    show(k),
                    show(&ck)
                ));
            }
        }
    } else if want_exists {
        return Some(format!("seek({}) found the key but current() is None", show(k)));
    }
    let rest: Vec<Item> = c.map(|d| item_of(&d)).collect();
    // expected: starts at k (present) or at pred/succ (absent); tail = everything after the first
    let start_candidates: Vec<usize> = if want_exists {
        vec![all.iter().position(|i| i.key() == k).unwrap()]
    } else {
        let mut v = Vec::new();
        if let Some(p) = mb.pred(k) {
            v.push(all.iter().position(|i| i.key() == p.as_slice()).unwrap());
        }
        if let Some(s) = mb.succ(k) {
            v.push(all.iter().position(|i| i.key() == s.as_slice()).unwrap());
        }
        v
    };
    if start_candidates.is_empty() {
        if !rest.is_empty() {
            return Some(format!(
                "seek({}) on an empty bucket yields {} items",
                show(k),
                rest.len()
            ));
        }
        return None;
    }
    // an absent key above every entry may also leave the cursor at the end
    let at_end_ok = !want_exists && mb.succ(k).is_none() && rest.is_empty();
    let ok = at_end_ok || start_candidates.iter().any(|s| rest.as_slice() == &all[*s..]);
    if !ok {
        return Some(format!(
            "iteration after seek({}) yields {} items starting at {}; model expects the tail starting at {}",
            show(k),
            rest.len(),
            rest.first().map(|i| show(i.key())).unwrap_or("<nothing>".into()),
            start_candidates
                .iter()
                .map(|s| show(all[*s].key()))
                .collect::<Vec<_>>()
                .join(" or ")
        ));
    }
    None
}

fn to_bound(b: &B, arena: &mut Vec<Vec<u8>>) -> (u8, usize) {
    match b {
        B::Inc(k) => {
            arena.push(k.bytes());
            (0, arena.len() - 1)
        }
        B::Exc(k) => {
            arena.push(k.bytes());
            (1, arena.len() - 1)
        }
        B::Unb => (2, 0),
    }
}

fn mk_bound<'a>(t: (u8, usize), arena: &'a [Vec<u8>]) -> Bound<&'a [u8]> {
    match t.0 {
        0 => Bound::Included(arena[t.1].as_slice()),
        1 => Bound::Excluded(arena[t.1].as_slice()),
        _ => Bound::Unbounded,
    }
}

pub fn run_history(h: &History, cfg: &ExecCfg, path: &Path) -> Outcome {
    crate::report::progress();
    let mut run = Run::new(cfg, h.pagesize);
    let r = util::catch(|| run_inner(h, &mut run, path));
    crate::c03::forbid_grow(false);
    match r {
        Ok(()) => {}
        Err(p) if p.msg.contains(crate::c03::GROW_MSG) => {
            // a history with pinned readers whose pre-sized file was too small after all: a commit that
            // extends the file while a reader is open on the same thread waits for itself (documented
            // limitation of the crate) - the guard stops it before that; no verdict on this history
            run.out.aborted = true;
            run.out.stats.pinned_histories_cut_short_by_the_growth_guard += 1;
        }
        Err(p) => {
            let phase = match run.cur_op {
                Some(i) => h.txs[run.cur_tx].ops.get(i).map(|o| o.name()).unwrap_or("end-of-tx"),
                None => "between-ops",
            };
            run.out.aborted = true;
            let sig = format!("{}:{}", phase_group(phase), util::panic_signature(&p));
            run.viol(
                Class::Panic,
                sig,
                format!(
                    "panic at {}:{} during {}: {}",
                    p.file, p.line, phase, p.msg
                ),
            );
        }
    }
    run.out
}

fn phase_group(phase: &str) -> &'static str {
    match phase {
        "end-of-tx" => "commit",
        "between-ops" => "verify",
        _ => "op",
    }
}

/// Execute one write-transaction script against `db` and the committed model
/// (which is replaced on a successful commit), with all configured checks.
/// On an unexpected outcome `run.out.aborted` is set.
pub fn exec_tx(run: &mut Run, db: &DB, path: &Path, script: &TxScript, ti: usize, committed_ref: &mut MBucket) {
    exec_tx_mid(run, db, path, script, ti, committed_ref, None);
}

/// Like `exec_tx`; `mid` runs after the last operation, just before commit / drop, while the write
/// transaction is still open (e.g. to open a reader while a writer is in flight).
pub fn exec_tx_mid(run: &mut Run, db: &DB, path: &Path, script: &TxScript, ti: usize, committed_ref: &mut MBucket, mid: Option<&dyn Fn()>) {
    crate::report::progress();
    run.cur_tx = ti;
    run.cur_op = None;
    let mut committed = committed_ref.clone();
    exec_tx_inner(run, db, path, script, &mut committed, mid);
    *committed_ref = committed;
}

fn exec_tx_inner(run: &mut Run, db: &DB, path: &Path, script: &TxScript, committed_out: &mut MBucket, mid: Option<&dyn Fn()>) {
    let mut committed = committed_out.clone();
    // expand all byte strings first: keys must outlive the transaction
    let keys: Vec<Vec<u8>> = script
        .ops
        .iter()
        .map(|op| match op {
            Op::TxCreate { k, .. }
            | Op::TxGet { k, .. }
            | Op::TxGetOrCreate { k, .. }
            | Op::TxDelete { k, .. }
            | Op::Put { k, .. }
            | Op::Get { k, .. }
            | Op::GetKv { k, .. }
            | Op::Delete { k, .. }
            | Op::Create { k, .. }
            | Op::GetB { k, .. }
            | Op::GetOrCreate { k, .. }
            | Op::DeleteB { k, .. }
            | Op::Seek { k, .. } => k.bytes(),
            _ => Vec::new(),
        })
        .collect();
    let vals: Vec<Vec<u8>> = script
        .ops
        .iter()
        .map(|op| match op {
            Op::Put { v, .. } => v.bytes(),
            _ => Vec::new(),
        })
        .collect();
    let mut bound_arena: Vec<Vec<u8>> = Vec::new();
    let bounds: Vec<((u8, usize), (u8, usize))> = script
        .ops
        .iter()
        .map(|op| match op {
            Op::Range { lo, hi, .. } => {
                let a = to_bound(lo, &mut bound_arena);
                let b = to_bound(hi, &mut bound_arena);
                (a, b)
            }
            _ => ((2, 0), (2, 0)),
        })
        .collect();
    for op in &script.ops {
        if let Op::Put { k, v, how, vhow, .. } = op {
            *run.out.stats.how_used.entry(format!("{:?}", how)).or_insert(0) += 1;
            *run.out.stats.how_used.entry(format!("{:?}", vhow)).or_insert(0) += 1;
            let kl = k.pre.len() + k.fill + k.post.len();
            *run.out
                .stats
                .key_classes
                .entry(size_class(kl, run.ps).into())
                .or_insert(0) += 1;
            *run.out
                .stats
                .val_classes
                .entry(size_class(v.len, run.ps).into())
                .or_insert(0) += 1;
        }
    }

    let pre_hash = if run.cfg.rollback_trace && script.end == End::Rollback {
        Some((
            util::fingerprint(&std::fs::read(path).unwrap_or_default()),
            db.verif_state(),
        ))
    } else {
        None
    };

    let mut work = committed.clone();
    let mut ended_by_misuse = false;
    let mut n_bucket_deletes = 0u32;
    let mut deleted_paths: Vec<Vec<Vec<u8>>> = Vec::new();
    let mut nested_then_ancestor = false;
    let commit_result;
    {
        let tx = match db.tx(true) {
            Ok(tx) => tx,
            Err(e) => {
                run.viol(
                    Class::UnexpectedErr,
                    "begin:err".into(),
                    format!("db.tx(true) failed: {}", e),
                );
                run.out.aborted = true;
                return;
            }
        };
        {
            let mut handles: Vec<Option<Bucket>> = Vec::new();
            let mut hs = Handles::default();
            let mut handed: Vec<(Data, Item)> = Vec::new();
            let mut handed_kv: Vec<(jammdb::KVPair, Vec<u8>, Vec<u8>)> = Vec::new();
            for (oi, op) in script.ops.iter().enumerate() {
                run.cur_op = Some(oi);
                crate::report::progress();
                run.out.stats.ops += 1;
                run.last_was_err = false;
                // resolve the handle, skip ops on handles that are not live (shrunk replays)
                let hidx = match op {
                    Op::Put { h, .. }
                    | Op::Get { h, .. }
                    | Op::GetKv { h, .. }
                    | Op::Delete { h, .. }
                    | Op::Create { h, .. }
                    | Op::GetB { h, .. }
                    | Op::GetOrCreate { h, .. }
                    | Op::DeleteB { h, .. }
                    | Op::Scan { h }
                    | Op::Seek { h, .. }
                    | Op::Range { h, .. }
                    | Op::Buckets { h }
                    | Op::KvPairs { h }
                    | Op::NextInt { h } => Some(*h),
                    _ => None,
                };
                if let Some(hi) = hidx {
                    if hi >= hs.v.len() || hs.v[hi].state != HState::Live {
                        if op.takes_slot() {
                            handles.push(None);
                            hs.push_dead();
                        }
                        continue;
                    }
                }
                if let Op::DropH { h } = op {
                    if *h < handles.len() && *h < hs.v.len() && hs.v[*h].state == HState::Live {
                        handles[*h] = None;
                        hs.v[*h].state = HState::Orphan; // never used again
                        run.out.stats.handles_dropped_mid_transaction += 1;
                    }
                    continue;
                }
                if let Op::Skip { slot } = op {
                    if *slot {
                        handles.push(None);
                        hs.push_dead();
                    }
                    continue;
                }
                let hpath: Vec<Vec<u8>> = hidx.map(|i| hs.v[i].path.clone()).unwrap_or_default();
                let key: &[u8] = &keys[oi];
                match op {
                    Op::TxCreate { how, .. } => {
                        let want = work.create_bucket(key);
                        let real = with_tb!(*how, key, |k| tx.create_bucket(k));
                        if run.cmp_unit(op, &real, &want) {
                            if let Ok(b) = real {
                                handles.push(Some(b));
                                hs.push(vec![key.to_vec()]);
                            } else {
                                handles.push(None);
                                hs.push_dead();
                            }
                        } else {
                            run.out.aborted = true;
                        }
                    }
                    Op::TxGet { how, .. } => {
                        let want = work.get_bucket(key);
                        let real = if *how == How::Listed {
                            *run.out.stats.how_used.entry("Listed".into()).or_insert(0) += 1;
                            tx.buckets().find(|(n, _)| n.name() == key).map(|(_, b)| b).ok_or(jammdb::Error::BucketMissing)
                        } else {
                            with_tb!(*how, key, |k| tx.get_bucket(k))
                        };
                        if run.cmp_unit(op, &real, &want) {
                            if let Ok(b) = real {
                                handles.push(Some(b));
                                hs.push(vec![key.to_vec()]);
                            } else {
                                handles.push(None);
                                hs.push_dead();
                            }
                        } else {
                            run.out.aborted = true;
                        }
                    }
                    Op::TxGetOrCreate { how, .. } => {
                        let want = work.get_or_create_bucket(key).map(|_| ());
                        let real = with_tb!(*how, key, |k| tx.get_or_create_bucket(k));
                        if run.cmp_unit(op, &real, &want) {
                            if let Ok(b) = real {
                                handles.push(Some(b));
                                hs.push(vec![key.to_vec()]);
                            } else {
                                handles.push(None);
                                hs.push_dead();
                            }
                        } else {
                            run.out.aborted = true;
                        }
                    }
                    Op::TxDelete { how, .. } => {
                        let want = work.delete_bucket(key);
                        let real = with_tb!(*how, key, |k| tx.delete_bucket(k));
                        if run.cmp_unit(op, &real, &want) {
                            if want.is_ok() {
                                let p = vec![key.to_vec()];
                                hs.on_bucket_deleted(&p);
                                n_bucket_deletes += 1;
                                if deleted_paths.iter().any(|d| d.len() > 1 && d[0] == p[0]) {
                                    nested_then_ancestor = true;
                                }
                                deleted_paths.push(p);
                            }
                        } else {
                            run.out.aborted = true;
                        }
                    }
                    Op::TxBuckets => {
                        let real: Vec<Item> = tx
                            .buckets()
                            .map(|(n, _)| Item::Bucket(n.name().to_vec()))
                            .collect();
                        let want: Vec<Item> = work
                            .items()
                            .into_iter()
                            .filter(|i| matches!(i, Item::Bucket(_)))
                            .collect();
                        run.record(op.name(), "ok");
                        run.cmp_items(op, "tx.buckets", &real, &want);
                    }
                    Op::Put { how, vhow, .. } => {
                        let val: &[u8] = &vals[oi];
                        let want = work.at_mut(&hpath).unwrap().put(key, val);
                        let b = handles[hidx.unwrap()].as_ref().unwrap();
                        let real = with_tb!(*how, key, |k| with_tb!(*vhow, val, |v| b.put(k, v)));
                        let wu: Result<(), ErrKind> = want.as_ref().map(|_| ()).map_err(|e| *e);
                        if run.cmp_unit(op, &real, &wu) {
                            if let (Ok(real_old), Ok(want_old)) = (real, want) {
                                let ro = real_old
                                    .as_ref()
                                    .map(|kv| (kv.key().to_vec(), kv.value().to_vec()));
                                if ro != want_old {
                                    run.viol(
                                        Class::OpResult,
                                        "put:old-value".into(),
                                        format!(
                                            "{:?}: previous pair returned {:?}, model {:?}",
                                            op,
                                            ro.as_ref().map(|x| (show(&x.0), show(&x.1))),
                                            want_old.as_ref().map(|x| (show(&x.0), show(&x.1)))
                                        ),
                                    );
                                } else if let (Some(kv), Some((wk, wv))) = (real_old, want_old) {
                                    if run.cfg.recheck_handed_back && handed_kv.len() < 64 {
                                        handed_kv.push((kv, wk, wv));
                                    }
                                }
                            }
                        } else {
                            run.out.aborted = true;
                        }
                    }
                    Op::Get { .. } => {
                        let want = work.at(&hpath).unwrap().item(key);
                        let b = handles[hidx.unwrap()].as_ref().unwrap();
                        let real = b.get(key);
                        let ri = real.as_ref().map(item_of);
                        run.record(op.name(), if ri.is_some() { "some" } else { "none" });
                        if ri != want {
                            run.viol(
                                Class::ReadInTx,
                                format!(
                                    "get:{}",
                                    if want.is_some() && ri.is_none() { "missing" } else { "wrong" }
                                ),
                                format!(
                                    "{:?}: get = {:?}, model {:?}",
                                    op,
                                    ri.as_ref().map(|i| show(i.key())),
                                    want.as_ref().map(|i| show(i.key()))
                                ),
                            );
                        } else if let (Some(d), Some(w)) = (real, want) {
                            if run.cfg.recheck_handed_back && handed.len() < 64 {
                                handed.push((d, w));
                            }
                        }
                    }
                    Op::GetKv { .. } => {
                        let want = match work.at(&hpath).unwrap().item(key) {
                            Some(Item::Kv(k, v)) => Some((k, v)),
                            _ => None,
                        };
                        let b = handles[hidx.unwrap()].as_ref().unwrap();
                        let real = b
                            .get_kv(key)
                            .map(|kv| (kv.key().to_vec(), kv.value().to_vec()));
                        run.record(op.name(), if real.is_some() { "some" } else { "none" });
                        if real != want {
                            run.viol(
                                Class::ReadInTx,
                                "get_kv:wrong".into(),
                                format!("{:?}: get_kv differs from the model", op),
                            );
                        }
                    }
                    Op::Delete { .. } => {
                        let want = work.at_mut(&hpath).unwrap().delete(key);
                        let b = handles[hidx.unwrap()].as_ref().unwrap();
                        let real = b.delete(key);
                        let wu: Result<(), ErrKind> = want.as_ref().map(|_| ()).map_err(|e| *e);
                        if run.cmp_unit(op, &real, &wu) {
                            if let (Ok(kv), Ok((wk, wv))) = (&real, &want) {
                                if kv.key() != wk.as_slice() || kv.value() != wv.as_slice() {
                                    run.viol(
                                        Class::OpResult,
                                        "delete:returned-pair".into(),
                                        format!("{:?}: removed pair differs from the model", op),
                                    );
                                }
                            }
                        } else {
                            run.out.aborted = true;
                        }
                    }
                    Op::Create { how, .. } | Op::GetB { how, .. } | Op::GetOrCreate { how, .. } => {
                        let wb = work.at_mut(&hpath).unwrap();
                        let want = match op {
                            Op::Create { .. } => wb.create_bucket(key),
                            Op::GetB { .. } => wb.get_bucket(key),
                            _ => wb.get_or_create_bucket(key).map(|_| ()),
                        };
                        let b = handles[hidx.unwrap()].as_ref().unwrap();
                        let real = match op {
                            Op::Create { .. } => with_tb!(*how, key, |k| b.create_bucket(k)),
                            Op::GetB { .. } if *how == How::Listed => {
                                *run.out.stats.how_used.entry("Listed".into()).or_insert(0) += 1;
                                // alternate between the two listing routes
                                if key.len() % 2 == 0 {
                                    b.buckets().find(|(n, _)| n.name() == key).map(|(_, nb)| nb).ok_or(jammdb::Error::BucketMissing)
                                } else {
                                    use jammdb::ToBuckets;
                                    b.cursor().to_buckets().find(|(n, _)| n.name() == key).map(|(_, nb)| nb).ok_or(jammdb::Error::BucketMissing)
                                }
                            }
                            Op::GetB { .. } => with_tb!(*how, key, |k| b.get_bucket(k)),
                            _ => with_tb!(*how, key, |k| b.get_or_create_bucket(k)),
                        };
                        if run.cmp_unit(op, &real, &want) {
                            if let Ok(nb) = real {
                                handles.push(Some(nb));
                                let mut p = hpath.clone();
                                p.push(key.to_vec());
                                hs.push(p);
                            } else {
                                handles.push(None);
                                hs.push_dead();
                            }
                        } else {
                            run.out.aborted = true;
                        }
                    }
                    Op::DeleteB { how, .. } => {
                        let want = work.at_mut(&hpath).unwrap().delete_bucket(key);
                        let b = handles[hidx.unwrap()].as_ref().unwrap();
                        let real = with_tb!(*how, key, |k| b.delete_bucket(k));
                        if run.cmp_unit(op, &real, &want) {
                            if want.is_ok() {
                                let mut p = hpath.clone();
                                p.push(key.to_vec());
                                hs.on_bucket_deleted(&p);
                                n_bucket_deletes += 1;
                                if deleted_paths
                                    .iter()
                                    .any(|d| d.len() > p.len() && d[..p.len()] == p[..])
                                {
                                    nested_then_ancestor = true;
                                }
                                deleted_paths.push(p);
                            }
                        } else {
                            run.out.aborted = true;
                        }
                    }
                    Op::Scan { .. } => {
                        let b = handles[hidx.unwrap()].as_ref().unwrap();
                        let mut c = b.cursor();
                        let mut real: Vec<Item> = Vec::new();
                        let cap = work.at(&hpath).map(|m| m.entries.len()).unwrap_or(0) + 8;
                        for d in c.by_ref() {
                            real.push(item_of(&d));
                            if real.len() > cap {
                                break; // an iteration that never ends is reported as "wrong" below instead of filling memory
                            }
                        }
                        // calling next() after the end must stay harmless
                        for _ in 0..2 {
                            if let Some(d) = c.next() {
                                real.push(item_of(&d));
                            }
                        }
                        let want = work.at(&hpath).unwrap().items();
                        run.record(op.name(), "ok");
                        run.cmp_items(op, "cursor", &real, &want);
                    }
                    Op::Seek { .. } => {
                        let b = handles[hidx.unwrap()].as_ref().unwrap();
                        let mb = work.at(&hpath).unwrap();
                        let all = mb.items();
                        run.record(op.name(), if mb.entries.contains_key(key) { "present" } else { "absent" });
                        if let Some(d) = check_seek(b, mb, &all, key) {
                            run.viol(Class::ReadInTx, "seek:wrong".into(), format!("{:?}: {}", op, d));
                        }
                    }
                    Op::Range { .. } => {
                        let (lo, hi) = bounds[oi];
                        let lo = mk_bound(lo, &bound_arena);
                        let hi = mk_bound(hi, &bound_arena);
                        let b = handles[hidx.unwrap()].as_ref().unwrap();
                        let real: Vec<Item> = b.range((lo, hi)).map(|d| item_of(&d)).collect();
                        let want = work.at(&hpath).unwrap().items_in(lo, hi);
                        run.record(op.name(), if want.is_empty() { "empty" } else { "nonempty" });
                        run.cmp_items(op, "range", &real, &want);
                    }
                    Op::Buckets { .. } => {
                        let b = handles[hidx.unwrap()].as_ref().unwrap();
                        let real: Vec<Item> =
                            b.buckets().map(|(n, _)| Item::Bucket(n.name().to_vec())).collect();
                        let want: Vec<Item> = work
                            .at(&hpath)
                            .unwrap()
                            .items()
                            .into_iter()
                            .filter(|i| matches!(i, Item::Bucket(_)))
                            .collect();
                        run.record(op.name(), "ok");
                        run.cmp_items(op, "buckets", &real, &want);
                    }
                    Op::KvPairs { .. } => {
                        let b = handles[hidx.unwrap()].as_ref().unwrap();
                        let real: Vec<Item> = b
                            .kv_pairs()
                            .map(|kv| Item::Kv(kv.key().to_vec(), kv.value().to_vec()))
                            .collect();
                        let want: Vec<Item> = work
                            .at(&hpath)
                            .unwrap()
                            .items()
                            .into_iter()
                            .filter(|i| matches!(i, Item::Kv(..)))
                            .collect();
                        run.record(op.name(), "ok");
                        run.cmp_items(op, "kv_pairs", &real, &want);
                    }
                    Op::NextInt { .. } => {
                        let b = handles[hidx.unwrap()].as_ref().unwrap();
                        let real = b.next_int();
                        let want = work.at(&hpath).unwrap().next_int;
                        run.record(op.name(), "ok");
                        if real != want {
                            run.viol(
                                Class::OpResult,
                                "next_int:wrong".into(),
                                format!("{:?}: next_int {} model {}", op, real, want),
                            );
                        }
                    }
                    Op::Skip { .. } | Op::DropH { .. } => {}
                    Op::Misuse { h: mh, what } => {
                        if *mh >= hs.v.len() || hs.v[*mh].state != HState::Deleted {
                            continue;
                        }
                        let b = handles[*mh].as_ref().unwrap();
                        let r = util::catch(|| misuse(b, *what));
                        match r {
                            Err(_p) => {
                                // the documented misuse panic (its wording is not part of the property)
                                run.out.stats.expected_panics += 1;
                                run.record(op.name(), "panic-as-documented");
                            }
                            Ok(()) => {
                                // not panicking is not forbidden by any property; recorded only
                                run.record(op.name(), "no-panic");
                            }
                        }
                        ended_by_misuse = true;
                    }
                }
                if ended_by_misuse || run.out.aborted {
                    break;
                }
                if run.cfg.verify_after_error && run.last_was_err && !run.cfg.verify_each_op {
                    run.out.stats.error_calls_verified += 1;
                    if let Some(d) = verify_tx_against(&tx, &work, false) {
                        run.viol(
                            Class::ErrChanged,
                            format!("error-call-changed-state:{}:{}", op.name(), classify_diff(&d)),
                            format!("{:?} returned an error but changed what the transaction sees: {}", op, d),
                        );
                        run.out.aborted = true;
                        break;
                    }
                }
                if run.cfg.verify_each_op {
                    run.out.stats.full_verifications += 1;
                    // a panic raised by the READS of this verification belongs to the read side (C07), not to
                    // the mutation that preceded it
                    match util::catch(|| verify_tx_against(&tx, &work, true)) {
                        Ok(None) => {}
                        Ok(Some(d)) => {
                            run.viol(
                                Class::ReadInTx,
                                format!("in-tx-view:{}", classify_diff(&d)),
                                format!("after {:?}: {}", op, d),
                            );
                            run.out.aborted = true;
                            break;
                        }
                        Err(p) => {
                            run.viol(
                                Class::ReadInTx,
                                format!("in-tx-view:{}", util::panic_signature(&p)),
                                format!("after {:?}: reading the transaction's own state panicked at {}:{}: {}", op, p.file, p.line, p.msg),
                            );
                            run.out.aborted = true;
                            break;
                        }
                    }
                }
            }
            run.cur_op = None;
            // values handed out earlier must still read the same at the end of the transaction
            for (d, w) in &handed {
                if &item_of(d) != w {
                    run.viol(
                        Class::HandedBack,
                        "handed-back:changed".into(),
                        format!(
                            "a value returned by get({}) changed before the transaction ended",
                            show(w.key())
                        ),
                    );
                    break;
                }
            }
            for (kv, k, v) in &handed_kv {
                if kv.key() != k.as_slice() || kv.value() != v.as_slice() {
                    run.viol(
                        Class::HandedBack,
                        "handed-back:changed".into(),
                        format!(
                            "the previous pair returned by put({}) changed before the transaction ended",
                            show(k)
                        ),
                    );
                    break;
                }
            }
        }
        if run.out.aborted {
            drop(tx);
            return;
        }
        run.cur_op = Some(script.ops.len());
        if let Some(f) = mid {
            f();
        }
        if script.end == End::Commit && !ended_by_misuse {
            commit_result = Some(tx.commit());
        } else {
            drop(tx);
            commit_result = None;
        }
        run.cur_op = None;
    }
    match commit_result {
        Some(Ok(())) => {
            committed = work;
            run.out.stats.commits += 1;
            run.record("commit", "ok");
            if n_bucket_deletes >= 2 {
                run.out.stats.multi_bucket_delete_txs += 1;
            }
            if nested_then_ancestor {
                run.out.stats.nested_then_ancestor_delete_txs += 1;
            }
        }
        Some(Err(e)) if run.tolerate_commit_err => {
            run.record("commit", "err-tolerated");
            run.last_commit_err = Some(e.to_string());
            *committed_out = committed;
            return;
        }
        Some(Err(e)) => {
            run.record("commit", "err");
            run.viol(
                Class::UnexpectedErr,
                format!("commit:err:{:?}", ErrKind::of(&e)),
                format!("commit of a valid transaction failed: {}", e),
            );
            run.out.aborted = true;
            return;
        }
        None => {
            run.out.stats.rollbacks += 1;
            run.record("rollback", "ok");
            if let Some((fp, st)) = pre_hash {
                run.out.stats.rollback_checks += 1;
                let now = util::fingerprint(&std::fs::read(path).unwrap_or_default());
                if now != fp {
                    run.viol(
                        Class::RollbackTrace,
                        "rollback:file-bytes-changed".into(),
                        "the file's bytes changed across a dropped write transaction".into(),
                    );
                }
                let st2 = db.verif_state();
                if st2 != st {
                    run.viol(
                        Class::RollbackTrace,
                        "rollback:shared-state-changed".into(),
                        format!(
                            "shared bookkeeping changed across a dropped write transaction: {:?} -> {:?}",
                            st, st2
                        ),
                    );
                }
            }
        }
    }
    // what a fresh transaction sees now
    if run.cfg.verify_after_commit {
        let tx = db.tx(false).expect("read tx");
        run.out.stats.full_verifications += 1;
        if let Some(d) = verify_tx_against(&tx, &committed, false) {
            let sig = if commit_result.is_some() {
                format!("post-commit:{}", classify_diff(&d))
            } else {
                format!("post-rollback:{}", classify_diff(&d))
            };
            run.viol(
                if commit_result.is_some() { Class::PostCommit } else { Class::RollbackTrace },
                sig,
                format!("fresh transaction after {:?}: {}", script.end, d),
            );
            run.out.aborted = true;
            return;
        }
    }
    if run.cfg.fileck_each_commit && commit_result.is_some() {
        file_checks(run, &db, path, &committed);
    }
    *committed_out = committed;
}

/// Histories with pinned readers (`History::pins`): read-only transactions stay open across write
/// transactions on the same handle.  No reopen, pre-sized file (see `presize_for_pins`).
fn run_inner_pinned(h: &History, run: &mut Run, path: &Path) {
    let db = match open_db(path, h) {
        Ok(db) => db,
        Err(e) => {
            run.viol(Class::Open, "open:err".into(), format!("open failed: {}", e));
            run.out.aborted = true;
            return;
        }
    };
    let mut committed = MBucket::default();
    run.last_file_len = std::fs::metadata(path).map(|m| m.len()).unwrap_or(0);
    let mut readers: Vec<(usize, Tx, MBucket)> = Vec::new();
    for (ti, script) in h.txs.iter().enumerate() {
        for (a, b) in &h.pins {
            if *a == ti {
                match db.tx(false) {
                    Ok(tx) => {
                        run.out.stats.pinned_readers_opened += 1;
                        readers.push((*b, tx, committed.clone()));
                    }
                    Err(e) => {
                        run.viol(Class::UnexpectedErr, "pinned-reader:begin:err".into(), format!("read-only transaction before write transaction {}: {}", ti, e));
                        run.out.aborted = true;
                        return;
                    }
                }
            }
        }
        let commits_before = run.out.stats.commits;
        crate::c03::forbid_grow(!readers.is_empty());
        exec_tx(run, &db, path, script, ti, &mut committed);
        crate::c03::forbid_grow(false);
        if run.out.aborted {
            return;
        }
        if run.out.stats.commits > commits_before {
            run.out.stats.commits_with_a_pinned_reader += readers.len().min(1) as u64;
        }
        if run.cfg.verify_after_commit {
            for (_, tx, snap) in &readers {
                run.out.stats.full_verifications += 1;
                if let Some(d) = verify_tx_against(tx, snap, false) {
                    run.viol(Class::PostCommit, format!("pinned-reader:{}", classify_diff(&d)), format!("a reader held open across write transaction {} no longer sees its snapshot: {}", ti, d));
                    run.out.aborted = true;
                    return;
                }
            }
        }
        readers.retain(|(b, _, _)| *b != ti);
    }
    drop(readers);
    drop(db);
    if run.cfg.verify_after_commit {
        match open_db(path, h) {
            Ok(db) => {
                run.out.stats.reopens += 1;
                let tx = db.tx(false).expect("read tx");
                if let Some(d) = verify_tx_against(&tx, &committed, true) {
                    run.viol(Class::Reopen, format!("reopen:{}", classify_diff(&d)), format!("final close + reopen: {}", d));
                }
            }
            Err(e) => run.viol(Class::Reopen, "reopen:err".into(), format!("final reopen failed: {}", e)),
        }
    }
}

/// Initial page count for a history with pinned readers: an upper bound on every page the history can
/// allocate when nothing is ever reused, so that no commit has to extend the file while a reader is open
/// on the same thread.
pub fn presize_for_pins(h: &History) -> usize {
    fn weight(v: &serde_json::Value) -> u64 {
        match v {
            serde_json::Value::Object(m) => m.iter().map(|(k, x)| if k == "len" || k == "fill" { x.as_u64().unwrap_or(0) } else { weight(x) }).sum(),
            serde_json::Value::Array(a) => {
                if a.iter().all(|x| x.is_u64()) {
                    a.len() as u64 // a literal byte string
                } else {
                    a.iter().map(weight).sum()
                }
            }
            _ => 0,
        }
    }
    let mut pages: u64 = 64;
    for t in &h.txs {
        pages += 16;
        for op in &t.ops {
            let w = weight(&serde_json::to_value(op).unwrap_or(serde_json::Value::Null));
            pages += 2 * (8 + 2 * (w / h.pagesize + 1));
        }
    }
    pages as usize
}

fn run_inner(h: &History, run: &mut Run, path: &Path) {
    if !h.pins.is_empty() {
        return run_inner_pinned(h, run, path);
    }
    let mut db = match open_db(path, h) {
        Ok(db) => db,
        Err(e) => {
            run.viol(Class::Open, "open:err".into(), format!("open failed: {}", e));
            run.out.aborted = true;
            return;
        }
    };
    let mut committed = MBucket::default();
    run.last_file_len = std::fs::metadata(path).map(|m| m.len()).unwrap_or(0);
    for (ti, script) in h.txs.iter().enumerate() {
        exec_tx(run, &db, path, script, ti, &mut committed);
        if run.out.aborted {
            return;
        }
        if script.reopen {
            drop(db);
            run.out.stats.reopens += 1;
            db = match reopen_db(path, h, run.out.stats.reopens) {
                Ok(db) => db,
                Err(e) => {
                    run.viol(Class::Reopen, "reopen:err".into(), format!("reopen failed: {}", e));
                    run.out.aborted = true;
                    return;
                }
            };
            if run.cfg.verify_after_commit {
                let tx = db.tx(false).expect("read tx");
                run.out.stats.full_verifications += 1;
                if let Some(d) = verify_tx_against(&tx, &committed, false) {
                    run.viol(
                        Class::Reopen,
                        format!("reopen:{}", classify_diff(&d)),
                        format!("after close + reopen: {}", d),
                    );
                    run.out.aborted = true;
                    return;
                }
            }
        }
    }
    // final: close, reopen, verify once more (cheap, always)
    drop(db);
    if run.cfg.verify_after_commit {
        match open_db(path, h) {
            Ok(db) => {
                run.out.stats.reopens += 1;
                let tx = db.tx(false).expect("read tx");
                if let Some(d) = verify_tx_against(&tx, &committed, true) {
                    run.viol(
                        Class::Reopen,
                        format!("reopen:{}", classify_diff(&d)),
                        format!("final close + reopen: {}", d),
                    );
                }
            }
            Err(e) => run.viol(Class::Reopen, "reopen:err".into(), format!("final reopen failed: {}", e)),
        }
    }
}

/// coarse class of a state difference, for signatures
pub fn classify_diff(d: &str) -> &'static str {
    if d.contains("next_int") {
        "counter"
    } else if d.contains("only on right") {
        "missing-key"
    } else if d.contains("only on left") {
        "extra-key"
    } else if d.contains("order") {
        "order"
    } else if d.contains("value of") {
        "value"
    } else if d.contains("range(") {
        "range"
    } else if d.contains("seek") {
        "seek"
    } else if d.contains("get(") || d.contains("get_kv(") {
        "point-get"
    } else {
        "other"
    }
}

fn file_checks(run: &mut Run, db: &DB, path: &Path, committed: &MBucket) {
    let bytes = match std::fs::read(path) {
        Ok(b) => b,
        Err(e) => {
            run.viol(Class::Fileck, "fileck:io".into(), format!("cannot read the file: {}", e));
            return;
        }
    };
    let rep = fileck::check(&bytes, run.ps);
    run.out.stats.fileck_runs += 1;
    for (k, v) in &rep.rule_evals {
        *run.out.stats.fileck_rule_evals.entry(k.to_string()).or_insert(0) += v;
    }
    if let Some(m) = &rep.meta {
        run.out.stats.pages_classified += m.num_pages.saturating_sub(2);
    }
    // how full the free-list page run is: (entries, capacity of the run) - "exactly full" and its neighbours are rare
    {
        let cap = (rep.freelist_run.len() as u64 * run.ps).saturating_sub(40) / 8;
        let n = rep.free_entries.len() as u64;
        if cap > 0 && n + 3 >= cap && n <= cap {
            *run.out.stats.freelist_fill.entry(format!("{} of {} (run of {} page(s), page size {})", n, cap, rep.freelist_run.len(), run.ps)).or_insert(0) += 1;
        }
    }
    for e in &rep.errors {
        run.viol(Class::Fileck, format!("fileck:{}", fileck_sig(e)), e.clone());
    }
    if rep.ok() {
        if let Some(d) = rep.contents.diff(committed, false) {
            run.viol(
                Class::Fileck,
                format!("fileck:contents:{}", classify_diff(&d)),
                format!("independent parser reads different contents: {}", d),
            );
        }
    }
    let chk = db.check();
    if let Err(e) = &chk {
        run.viol(
            Class::DbCheck,
            format!("dbcheck:{}", fileck_sig(&e.to_string())),
            format!("DB::check() after a successful commit: {}", e),
        );
    }
    if chk.is_ok() != rep.ok() {
        run.viol(
            Class::DbCheck,
            "dbcheck:disagrees-with-parser".into(),
            format!(
                "DB::check() says {}, independent parser says {}",
                if chk.is_ok() { "sound" } else { "unsound" },
                if rep.ok() { "sound".to_string() } else { rep.errors[0].clone() }
            ),
        );
    }
    // shape bookkeeping for the evidence
    if run.cfg.trace_commits {
        run.out
            .stats
            .commit_trace
            .push((rep.contents.digest() ^ rep.contents.next_int.wrapping_mul(0x9E37_79B9_7F4A_7C15), rep.reachable.len() as u64));
    }
    let t = rep.total_shape();
    run.out
        .stats
        .shapes
        .insert((t.depth, t.leaves.min(64), t.branches.min(16), t.overflow_runs.min(8)));
    run.out.stats.max_depth = run.out.stats.max_depth.max(t.depth);
    if t.overflow_runs > 0 {
        run.out.stats.overflow_commits += 1;
    }
    if let Some(prev) = &run.last_shape {
        if t.leaves > prev.leaves {
            run.out.stats.splits += 1;
        }
        if t.leaves < prev.leaves {
            run.out.stats.merges += 1;
        }
        if t.depth > prev.depth {
            run.out.stats.depth_up += 1;
        }
        if t.depth < prev.depth {
            run.out.stats.depth_down += 1;
        }
    }
    if rep.file_len > run.last_file_len {
        run.out.stats.growths += 1;
    }
    run.last_file_len = rep.file_len;
    run.last_shape = Some(t);
}

/// strip numbers so that the same kind of structural error has one signature
pub fn fileck_sig(e: &str) -> String {
    let mut s = String::new();
    let mut last_digit = false;
    for c in e.chars() {
        if c.is_ascii_digit() {
            if !last_digit {
                s.push('N');
            }
            last_digit = true;
        } else {
            last_digit = false;
            s.push(c);
        }
    }
    // drop quoted keys / hex dumps
    let s: String = s
        .split_whitespace()
        .filter(|w| !w.starts_with('\'') && !w.starts_with("xN") && !w.starts_with('x'))
        .take(9)
        .collect::<Vec<_>>()
        .join(" ");
    s
}

fn misuse(b: &Bucket, what: u8) {
    match what % 14 {
        0 => {
            let _ = b.put("k", "v");
        }
        1 => {
            let _ = b.get("k");
        }
        2 => {
            let _ = b.get_kv("k");
        }
        3 => {
            let _ = b.delete("k");
        }
        4 => {
            let _ = b.get_bucket("k");
        }
        5 => {
            let _ = b.create_bucket("k");
        }
        6 => {
            let _ = b.get_or_create_bucket("k");
        }
        7 => {
            let _ = b.delete_bucket("k");
        }
        8 => {
            let _ = b.next_int();
        }
        9 => {
            let _ = b.cursor();
        }
        10 => {
            let _ = b.buckets().count();
        }
        11 => {
            let _ = b.kv_pairs().count();
        }
        12 => {
            let a: &[u8] = b"a";
            let _ = b.range(a..).count();
        }
        _ => {
            let _ = b.cursor().count();
        }
    }
}
