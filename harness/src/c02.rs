//! C02 – a crash at any instant leaves the previous or the new commit.
//! Histories are executed under the I/O shim in record mode; from the recorded
//! write / sync sequence every process-kill prefix and every power-loss subset
//! (with sector-torn writes and word-torn header writes) is materialised as a
//! file image, which is parsed by the independent checker and reopened through
//! the public API.
use crate::exec::{self, ExecCfg, Run};
use crate::fileck;
use crate::gen::{Gen, GenCfg};
use crate::model::MBucket;
use crate::ops::*;
use crate::report::{Ctx, Shard};
use crate::util::{self, Rng, Scratch};
use crate::vio::{self, Ev, Vio};
use serde::{Deserialize, Serialize};

#[derive(Clone, Debug, Serialize, Deserialize)]
pub struct Workload {
    pub history: History,
    pub label: String,
    /// start from a copy of this golden file (written by the pinned release) instead of a new file
    #[serde(default)]
    pub base: Option<String>,
}

#[derive(Clone, Debug)]
struct W {
    off: u64,
    data: Vec<u8>,
    size_after: u64,
}

#[derive(Clone, Debug, Serialize, Deserialize)]
pub struct ImageRecipe {
    pub commit: usize,
    pub kind: String,
    /// indices (within the pending list) of the writes applied, with (from,to) byte ranges kept
    pub applied: Vec<(usize, Vec<(usize, usize)>)>,
    pub pending: usize,
    pub file_len: u64,
}

fn apply(img: &mut Vec<u8>, w: &W, ranges: Option<&[(usize, usize)]>) {
    let end = w.off as usize + w.data.len();
    if img.len() < end {
        img.resize(end, 0);
    }
    match ranges {
        None => img[w.off as usize..end].copy_from_slice(&w.data),
        Some(rs) => {
            for (a, b) in rs {
                let b = (*b).min(w.data.len());
                if a < &b {
                    img[w.off as usize + a..w.off as usize + b].copy_from_slice(&w.data[*a..b]);
                }
            }
        }
    }
}

pub fn gen_workloads(ctx: &Ctx, rng: &mut Rng) -> Vec<Workload> {
    let n = ctx.scale(if ctx.thorough() { 8 } else { 5 });
    let mut v = Vec::new();
    for i in 0..n {
        let profile = *rng.pick(&[4u8, 1, 3, 0, 4]);
        // a quarter of the workloads at page sizes that are not a multiple of the 512-byte sector
        let ps: u64 = if (ctx.shard + i) % 4 == 3 { [5000u64, 1032, 3000][((ctx.shard + i) / 4 % 3) as usize] } else { 1024 };
        let mut g = GenCfg::default_for(ps, profile);
        g.num_pages = 256;
        g.n_txs = (4, 9);
        g.ops_per_tx = if i % 3 == 0 { (20, 60) } else { (2, 12) };
        g.p_rollback = 10;
        g.p_reopen = 10;
        g.p_misuse = 0;
        g.max_value = 3 * ps as usize;
        let mut grng = rng.fork();
        let mut h = Gen::new(&mut grng, g).history();
        // a write transaction committed without any change, in the middle of the history: its header
        // write must still be ordered before the next commit's data writes
        if h.txs.len() >= 3 {
            let at = 1 + (i as usize % (h.txs.len() - 1));
            h.txs.insert(at, TxScript { ops: vec![], end: End::Commit, reopen: false });
            if i % 2 == 0 {
                h.txs.insert(at, TxScript { ops: vec![Op::TxBuckets], end: End::Commit, reopen: false });
            }
        }
        let mut label = format!("reuse workload profile={} page size {} ops/tx={} (+empty commits)", crate::gen::profile_name(profile), ps, if i % 3 == 0 { "20-60" } else { "2-12" });
        if i % 5 == 4 {
            // a growth workload: start from the minimum file, one big value forces an extension
            h.num_pages = 4;
            if let Some(t) = h.txs.get_mut(1) {
                t.ops.insert(0, Op::TxGetOrCreate { k: K::lit(b"big"), how: How::Slice });
                for op in t.ops.iter_mut().skip(1) {
                    shift(op);
                }
                t.ops.insert(1, Op::Put { h: 0, k: K::lit(b"blob"), v: V { tag: 42, len: 9 * 1024 * 1024 }, how: How::Slice, vhow: How::Slice });
                t.end = End::Commit;
            }
            label.push_str(" + growth");
        }
        v.push(Workload { history: h, label, base: None });
    }
    // ---- directed workloads (seed independent), spread over the shards
    let mut directed = directed_workloads(ctx.thorough());
    // (f) the free list consumed entry by entry through the length that exactly fills its page, every commit
    // with its crash images (seeded change C02-p: at exactly that length one page too many is freed, a later
    // commit writes over a page the durable header still reaches)
    for (ps, idx) in [(1024u64, 0usize), (1032, 0)] {
        if let Some(mut h) = crate::shape::freelist_walk_history(ps, idx) {
            h.origin = "directed".into();
            // (the list starts 25 entries above the exact-fill length and loses one or two per commit: the first
            // sixty commits contain the passage and what follows it)
            h.txs.truncate(62);
            directed.push(Workload { history: h, label: format!("free-list walk through the exact-fill length at page size {}", ps), base: None });
        }
    }
    for (i, w) in directed.into_iter().enumerate() {
        if (i as u64 + 2) % ctx.nshards == ctx.shard {
            v.insert(0, w);
        }
    }
    v
}

/// Workloads aimed at what random reuse histories rarely do: (a) the very first commits of a
/// minimum-size file (every one of them extends the file), (b) free lists longer than one page that
/// are rewritten by small commits, (c) repeated file extension at a large page size (an 8 MiB
/// allocation step is only 128 pages of 64 KiB), all without any reader open.
pub fn directed_workloads(thorough: bool) -> Vec<Workload> {
    let mut v = Vec::new();
    let put = |h: H, k: String, tag: u64, len: usize| Op::Put { h, k: K::lit(k.as_bytes()), v: V { tag, len }, how: How::Slice, vhow: How::Slice };
    let tx = |ops: Vec<Op>| TxScript { ops, end: End::Commit, reopen: false };
    // (a) minimum-size files: 4 pages, small and medium first transactions
    for (ps, n, len) in [(1024u64, 3usize, 40usize), (1024, 12, 300), (4096, 30, 900), (1024, 2, 2500)] {
        let mut txs = Vec::new();
        let mut ops = vec![Op::TxCreate { k: K::lit(b"first"), how: How::Slice }];
        for j in 0..n {
            ops.push(put(0, format!("k{:03}", j), 10 + j as u64, len));
        }
        txs.push(tx(ops));
        let mut ops = vec![Op::TxGet { k: K::lit(b"first"), how: How::Slice }];
        for j in 0..n {
            ops.push(put(0, format!("k{:03}", j), 100 + j as u64, len + 1));
        }
        txs.push(tx(ops));
        txs.push(tx(vec![Op::TxGet { k: K::lit(b"first"), how: How::Slice }, Op::Delete { h: 0, k: K::lit(b"k000") }, put(0, "z".into(), 999, len)]));
        v.push(Workload { history: History { pagesize: ps, num_pages: 4, strict: false, populate: false, txs, origin: "directed".into(), pins: vec![] }, label: format!("minimum-size file, page size {}, first commits of {} x {} B", ps, n, len), base: None });
    }
    // (b) free lists of several pages, rewritten by small commits and by commits that shrink them
    for index in if thorough { vec![0usize, 1, 3] } else { vec![0usize] } {
        if let Some(mut h) = crate::shape::big_freelist_history(1024, index) {
            for t in h.txs.iter_mut() {
                t.reopen = false;
            }
            // two more small commits while the list is long
            let extra = tx(vec![Op::TxGet { k: K::lit(b"keep"), how: How::Slice }, put(0, "extra".into(), 777, 33)]);
            h.txs.insert(2, extra.clone());
            h.txs.insert(2, tx(vec![Op::TxGet { k: K::lit(b"keep"), how: How::Slice }, put(0, "extra2".into(), 778, 500), Op::Delete { h: 0, k: K { pre: b"big00001".to_vec(), fill: 6, post: vec![] } }]));
            h.num_pages = 64;
            v.push(Workload { history: h, label: format!("multi-page free list rewritten by small commits (variant {})", index), base: None });
        }
    }
    // (c) repeated growth: 64 KiB pages, each commit adds about 2.6 MiB, some delete and re-add
    {
        let ps = 65536u64;
        let mut txs = Vec::new();
        txs.push(tx(vec![Op::TxCreate { k: K::lit(b"g"), how: How::Slice }, put(0, "seed".into(), 1, 100)]));
        let rounds = if thorough { 9 } else { 5 };
        for r in 0..rounds {
            let mut ops = vec![Op::TxGet { k: K::lit(b"g"), how: How::Slice }];
            for j in 0..13 {
                ops.push(put(0, format!("r{}-{:02}", r, j), 1000 * (r as u64 + 1) + j as u64, 200_000 + 1000 * j));
            }
            if r % 2 == 1 {
                for j in 0..6 {
                    ops.push(Op::Delete { h: 0, k: K::lit(format!("r{}-{:02}", r - 1, j).as_bytes()) });
                }
            }
            txs.push(tx(ops));
            txs.push(tx(vec![Op::TxGet { k: K::lit(b"g"), how: How::Slice }, put(0, "seed".into(), 50 + r as u64, 100 + r)]));
        }
        v.push(Workload { history: History { pagesize: ps, num_pages: 4, strict: false, populate: false, txs, origin: "directed".into(), pins: vec![] }, label: "repeated file extension at page size 65536 (2.6 MiB per commit)".into(), base: None });
    }
    // (d) same at 16 KiB pages with many small values (many pages per commit, growth every few commits)
    {
        let ps = 16384u64;
        let mut txs = Vec::new();
        txs.push(tx(vec![Op::TxCreate { k: K::lit(b"g"), how: How::Slice }]));
        for r in 0..(if thorough { 8 } else { 4 }) {
            let mut ops = vec![Op::TxGet { k: K::lit(b"g"), how: How::Slice }];
            for j in 0..60 {
                ops.push(put(0, format!("r{}-{:03}", r, j), 1000 * (r as u64 + 1) + j as u64, 50_000));
            }
            txs.push(tx(ops));
        }
        v.push(Workload { history: History { pagesize: ps, num_pages: 4, strict: false, populate: false, txs, origin: "directed".into(), pins: vec![] }, label: "repeated file extension at page size 16384 (3 MiB per commit in 60 values)".into(), base: None });
    }
    // (e) further commits on files written by the PINNED release (and their legacy-header rewrites): the
    // first commit by the current code meets a header pair it did not write itself
    for (name, ps) in [("golden-1024.db", 1024u64), ("legacy-1024.db", 1024), ("golden-4096.db", 4096), ("legacy-5000.db", 5000)] {
        if !thorough && ps == 4096 {
            continue;
        }
        let txs = crate::c15::follow_ups(if thorough { 10 } else { 5 }, ps);
        v.push(Workload { history: History { pagesize: ps, num_pages: 32, strict: false, populate: false, txs, origin: "directed".into(), pins: vec![] }, label: format!("further commits on {} (written by the pinned release)", name), base: Some(name.to_string()) });
    }
    v
}

fn shift(op: &mut Op) {
    match op {
        Op::Put { h, .. } | Op::Get { h, .. } | Op::GetKv { h, .. } | Op::Delete { h, .. } | Op::Create { h, .. }
        | Op::GetB { h, .. } | Op::GetOrCreate { h, .. } | Op::DeleteB { h, .. } | Op::Scan { h } | Op::Seek { h, .. }
        | Op::Range { h, .. } | Op::Buckets { h } | Op::KvPairs { h } | Op::NextInt { h } | Op::Misuse { h, .. } => *h += 1,
        _ => {}
    }
}

#[derive(Default)]
pub struct St {
    pub fidelity_checked: u64,
    pub fidelity_failures: u64,
    pub commits: u64,
    pub writes: u64,
    pub syncs: u64,
    pub images: u64,
    pub images_prev: u64,
    pub images_new: u64,
    pub kill_images: u64,
    pub power_images: u64,
    pub torn_sector_images: u64,
    pub torn_header_images: u64,
    pub extra_commits: u64,
    pub segments_with_header_and_data_pending: u64,
    pub max_pending: u64,
    pub growth_commits: u64,
    pub multi_page_freelist_commits: u64,
    pub directed: u64,
    pub golden_based: u64,
    pub direct_workloads: u64,
    pub reader_workloads: u64,
    pub distinct: std::collections::BTreeSet<u64>,
    pub shapes: std::collections::BTreeSet<String>,
}

/// Result of probing one image.
fn probe(
    img: &[u8],
    h: &History,
    path: &std::path::Path,
    prev: &MBucket,
    new: &MBucket,
    must_be_new: bool,
    extra_commit: bool,
) -> Result<&'static str, (String, String)> {
    crate::report::progress();
    // 1. independent parser on the raw bytes
    let rep = fileck::check(img, h.pagesize);
    if !rep.ok() {
        return Err(("crash-image:structurally-unsound".into(), format!("independent parser: {}", rep.errors[0])));
    }
    let which = if rep.contents.diff(new, false).is_none() {
        "new"
    } else if rep.contents.diff(prev, false).is_none() {
        "prev"
    } else {
        return Err((
            "crash-image:neither-previous-nor-new-state".into(),
            format!(
                "parsed contents equal neither state; vs previous: {:?}; vs new: {:?}",
                rep.contents.diff(prev, false),
                rep.contents.diff(new, false)
            ),
        ));
    };
    if must_be_new && which != "new" {
        return Err((
            "crash-image:acknowledged-commit-lost".into(),
            "all writes of an acknowledged commit are present but the file shows the previous state".into(),
        ));
    }
    // 2. the real code must agree
    if std::fs::write(path, img).is_err() {
        return Ok(which);
    }
    let expected = if which == "new" { new } else { prev };
    let r = util::catch(|| -> Result<(), (String, String)> {
        // (the initial page count has no effect on an existing file: every other image is reopened with a different one)
        let variant = (img.len() as u64 / h.pagesize + img.get(100).copied().unwrap_or(0) as u64) % 4;
        let db = exec::reopen_db(path, h, if variant < 2 { 0 } else { variant }).map_err(|e| ("crash-image:reopen-fails".to_string(), format!("open: {}", e)))?;
        {
            let tx = db.tx(false).map_err(|e| ("crash-image:reopen-fails".to_string(), format!("tx: {}", e)))?;
            if let Some(d) = exec::verify_tx_against(&tx, expected, false) {
                return Err((
                    "crash-image:reopened-contents-differ".into(),
                    format!("after reopening, contents differ from the {} state the file encodes: {}", which, d),
                ));
            }
        }
        if let Err(e) = db.check() {
            return Err(("crash-image:db-check-fails".into(), format!("DB::check on the reopened image: {}", e)));
        }
        if extra_commit {
            let tx = db.tx(true).map_err(|e| ("crash-image:cannot-continue".to_string(), format!("tx: {}", e)))?;
            {
                let b = tx.get_or_create_bucket("after-crash").map_err(|e| ("crash-image:cannot-continue".to_string(), format!("{}", e)))?;
                for i in 0..6u8 {
                    b.put(vec![b'k', i], vec![i; 300]).map_err(|e| ("crash-image:cannot-continue".to_string(), format!("{}", e)))?;
                }
            }
            tx.commit().map_err(|e| ("crash-image:cannot-continue".to_string(), format!("commit after recovery: {}", e)))?;
            if let Err(e) = db.check() {
                return Err(("crash-image:unsound-after-one-more-commit".into(), format!("DB::check after one more commit: {}", e)));
            }
            let mut exp2 = expected.clone();
            let _ = exp2.get_or_create_bucket(b"after-crash");
            for i in 0..6u8 {
                let _ = exp2.at_mut(&[b"after-crash".to_vec()]).unwrap().put(&[b'k', i], &vec![i; 300]);
            }
            let tx = db.tx(false).map_err(|e| ("crash-image:cannot-continue".to_string(), format!("{}", e)))?;
            if let Some(d) = exec::verify_tx_against(&tx, &exp2, false) {
                return Err(("crash-image:wrong-after-one-more-commit".into(), d));
            }
        }
        Ok(())
    });
    match r {
        Ok(Ok(())) => Ok(which),
        Ok(Err(e)) => Err(e),
        Err(p) => Err((
            format!("crash-image:reopen-{}", util::panic_signature(&p)),
            format!("panic at {}:{}: {}", p.file, p.line, p.msg),
        )),
    }
}

/// subsets of 0..n to try: exhaustive when small, else structured + seeded sample
fn subsets(n: usize, rng: &mut Rng, sample: usize) -> (Vec<Vec<bool>>, bool) {
    let mut out: Vec<Vec<bool>> = Vec::new();
    if n <= 10 {
        for m in 0..(1u32 << n) {
            out.push((0..n).map(|i| m & (1 << i) != 0).collect());
        }
        return (out, true);
    }
    out.push(vec![false; n]);
    out.push(vec![true; n]);
    for i in 0..n {
        let mut v = vec![true; n];
        v[i] = false;
        out.push(v);
        let mut v = vec![false; n];
        v[i] = true;
        out.push(v);
    }
    let mut v = vec![true; n];
    v[n - 1] = false;
    out.push(v); // all but the last (header)
    for _ in 0..sample {
        out.push((0..n).map(|_| rng.chance(1, 2)).collect());
    }
    (out, false)
}

#[allow(clippy::too_many_arguments)]
/// the file as the recorded events say it must be at the end of the execution
fn reconstruct(evs: &[Ev], base_img: &[u8]) -> Vec<u8> {
    let mut img = base_img.to_vec();
    let mut len_now = img.len() as u64;
    for ev in evs {
        match ev {
            Ev::Open { size_after } => len_now = len_now.max(*size_after),
            Ev::Write { off, data, size_after, ok, .. } => {
                if !*ok && data.is_empty() {
                    continue;
                }
                apply(&mut img, &W { off: *off, data: data.clone(), size_after: *size_after }, None);
                len_now = len_now.max(*size_after);
            }
            Ev::Sync { size_after, .. } => len_now = len_now.max(*size_after),
            Ev::Truncate { len } => {
                img.resize(*len as usize, 0);
                len_now = *len;
            }
            _ => {}
        }
        if img.len() < len_now as usize {
            img.resize(len_now as usize, 0);
        }
    }
    img
}

fn analyse(
    ctx: &Ctx,
    shard: &mut Shard,
    wl: &Workload,
    evs: &[Ev],
    states: &[MBucket],
    path: &std::path::Path,
    st: &mut St,
    rng: &mut Rng,
    base_img: &[u8],
) {
    let h = &wl.history;
    let ps = h.pagesize as usize;
    let thorough = ctx.thorough();
    let mut cache: Vec<u8> = base_img.to_vec(); // all writes applied
    let mut durable: Vec<u8> = base_img.to_vec(); // as of the last completed sync
    let mut pending: Vec<W> = Vec::new();
    let mut cur_commit: Option<usize> = None;
    let mut commit_writes: Vec<W> = Vec::new();
    let mut cache_at_commit_start: Vec<u8> = Vec::new();
    let mut len_now: u64 = base_img.len() as u64;
    let mut acked: usize = 0; // index into states of the last acknowledged state
    let mut probe_n = 0u64;
    let cur = std::env::var("VH_CURRENT").ok();

    macro_rules! test_image {
        ($img:expr, $recipe:expr, $prev:expr, $new:expr, $must_new:expr) => {{
            let img: &Vec<u8> = $img;
            let fp = util::fingerprint(img);
            if st.distinct.insert(fp.0 ^ fp.1.rotate_left(17)) {
                probe_n += 1;
                st.images += 1;
                let extra = probe_n % 8 == 0;
                if extra {
                    st.extra_commits += 1;
                }
                if let Some(c) = &cur {
                    if probe_n % 32 == 1 {
                        let _ = std::fs::write(c, serde_json::to_vec(&serde_json::json!({"workload": wl, "recipe": $recipe})).unwrap());
                    }
                }
                match probe(img, h, path, $prev, $new, $must_new, extra) {
                    Ok("new") => st.images_new += 1,
                    Ok(_) => st.images_prev += 1,
                    Err((sig, detail)) => {
                        let r: ImageRecipe = $recipe;
                        let sig = format!("{}:{}", sig, r.kind.split(':').next().unwrap_or(""));
                        let replay = serde_json::json!({"kind": "c02", "workload": wl, "recipe": r});
                        shard.violation(ctx, &sig, &format!("[{}] commit #{} {}: {}", wl.label, r.commit, r.kind, detail), &replay);
                    }
                }
            }
        }};
    }

    for ev in evs {
        match ev {
            Ev::Open { size_after } => {
                len_now = len_now.max(*size_after);
            }
            Ev::Mark(m) => {
                if let Some(k) = m.strip_prefix("B ") {
                    cur_commit = k.parse().ok();
                    commit_writes.clear();
                    cache_at_commit_start = cache.clone();
                } else if let Some(rest) = m.strip_prefix("E ") {
                    let mut it = rest.split(' ');
                    let k: usize = it.next().and_then(|x| x.parse().ok()).unwrap_or(0);
                    let ok = it.next() == Some("ok");
                    if ok && !commit_writes.is_empty() {
                        st.commits += 1;
                        if commit_writes.iter().any(|w| w.size_after as usize > cache_at_commit_start.len()) {
                            st.growth_commits += 1;
                        }
                        if commit_writes.iter().any(|w| w.data.len() > ps && w.data.get(8) == Some(&4)) {
                            st.multi_page_freelist_commits += 1;
                        }
                        let prev = &states[acked];
                        let new = &states[k + 1];
                        // ---- A. process kill: every prefix of the write sequence
                        let n = commit_writes.len();
                        st.shapes.insert(format!("{} writes ({} multi-page)", n.min(40), commit_writes.iter().filter(|w| w.data.len() > ps).count().min(9)));
                        let mut img = cache_at_commit_start.clone();
                        for j in 0..=n {
                            if j > 0 {
                                // the j-th write cut short at sector boundaries
                                let w = &commit_writes[j - 1];
                                let sectors = w.data.len() / 512;
                                let cuts: Vec<usize> = if sectors <= 4 { (1..sectors).collect() } else { vec![1, sectors / 2, sectors - 1] };
                                for c in cuts {
                                    let mut t = img.clone();
                                    apply(&mut t, w, Some(&[(0, c * 512)]));
                                    t.resize((w.size_after as usize).max(t.len()), 0);
                                    st.kill_images += 1;
                                    test_image!(&t, ImageRecipe { commit: k, kind: format!("process-kill:after {} of {} writes, last cut at {} bytes", j - 1, n, c * 512), applied: vec![], pending: n, file_len: t.len() as u64 }, prev, new, false);
                                }
                                apply(&mut img, w, None);
                                img.resize((w.size_after as usize).max(img.len()), 0);
                            }
                            st.kill_images += 1;
                            test_image!(&img, ImageRecipe { commit: k, kind: format!("process-kill:after {} of {} writes", j, n), applied: vec![], pending: n, file_len: img.len() as u64 }, prev, new, j == n);
                        }
                        acked = k + 1;
                    } else if ok {
                        acked = k + 1; // a commit that wrote nothing (cannot happen) or an empty one
                    }
                    cur_commit = None;
                }
            }
            Ev::Write { off, data, size_after, ok, .. } => {
                if !*ok && data.is_empty() {
                    continue;
                }
                let w = W { off: *off, data: data.clone(), size_after: *size_after };
                apply(&mut cache, &w, None);
                len_now = len_now.max(*size_after);
                cache.resize((len_now as usize).max(cache.len()), 0);
                st.writes += 1;
                if cur_commit.is_some() {
                    commit_writes.push(w.clone());
                }
                pending.push(w);
            }
            Ev::Sync { ok, size_after } => {
                st.syncs += 1;
                len_now = len_now.max(*size_after);
                if !*ok {
                    continue;
                }
                // ---- B. power loss just before this sync completes: any subset of the pending writes
                if let Some(k) = cur_commit {
                    let prev = &states[acked];
                    let new = &states[k + 1];
                    let n = pending.len();
                    st.max_pending = st.max_pending.max(n as u64);
                    let has_header = pending.iter().any(|w| (w.off as usize) < 2 * ps);
                    let has_data = pending.iter().any(|w| (w.off as usize) >= 2 * ps);
                    if has_header && has_data {
                        st.segments_with_header_and_data_pending += 1;
                    }
                    let big_file = durable.len() > (4 << 20) || len_now > (4 << 20);
                    let (mut subs, _ex) = subsets(n, rng, if big_file { 4 } else if thorough { 256 } else { 48 });
                    if big_file && subs.len() > 40 {
                        subs.truncate(40);
                    }
                    let base_len = (len_now as usize).max(durable.len());
                    for (si, s) in subs.iter().enumerate() {
                        let mut img = durable.clone();
                        img.resize(base_len, 0);
                        let mut applied = Vec::new();
                        for (i, w) in pending.iter().enumerate() {
                            if s[i] {
                                apply(&mut img, w, None);
                                applied.push((i, vec![(0, w.data.len())]));
                            }
                        }
                        st.power_images += 1;
                        test_image!(&img, ImageRecipe { commit: k, kind: format!("power-loss:subset {} of {} pending writes", applied.len(), n), applied: applied.clone(), pending: n, file_len: img.len() as u64 }, prev, new, false);
                        // sector-torn variant of one chosen write, on a sample of the subsets
                        if !applied.is_empty() && (si % 5 == 0 || (thorough && si % 2 == 0)) {
                            let (wi, _) = applied[rng.usize(applied.len())].clone();
                            let w = &pending[wi];
                            let sectors = (w.data.len() + 511) / 512;
                            if sectors >= 2 {
                                let mut variants: Vec<Vec<(usize, usize)>> = Vec::new();
                                let c = 1 + rng.usize(sectors - 1);
                                variants.push(vec![(0, c * 512)]); // prefix
                                variants.push(vec![(c * 512, w.data.len())]); // suffix
                                let rs: Vec<(usize, usize)> = (0..sectors).filter(|_| rng.chance(1, 2)).map(|s| (s * 512, (s + 1) * 512)).collect();
                                variants.push(rs);
                                for v in variants {
                                    let mut t = durable.clone();
                                    t.resize(base_len, 0);
                                    for (i, w2) in pending.iter().enumerate() {
                                        if s[i] && i != wi {
                                            apply(&mut t, w2, None);
                                        }
                                    }
                                    apply(&mut t, w, Some(&v));
                                    st.torn_sector_images += 1;
                                    test_image!(&t, ImageRecipe { commit: k, kind: format!("power-loss-sector-torn:write {} torn", wi), applied: vec![(wi, v.clone())], pending: n, file_len: t.len() as u64 }, prev, new, false);
                                }
                            }
                        }
                    }
                    // header record torn at 8-byte-word granularity
                    if let Some(hi) = pending.iter().position(|w| (w.off as usize) < 2 * ps) {
                        let hw = pending[hi].clone();
                        let words = 13usize; // page header (4 words) + record (9 words)
                        let masks: Vec<u32> = if big_file {
                            vec![0, 1, 0b1111, 0b1_1111_1111, (1 << 13) - 1, 0b1_1111_1111_0000, 0b1_0101_0101_0101]
                        } else if thorough && k < 2 {
                            (0..(1u32 << words)).collect()
                        } else {
                            let mut m: Vec<u32> = (0..=words as u32).map(|p| (1u32 << p) - 1).collect(); // prefixes
                            let all: u32 = (1u32 << words) - 1;
                            m.extend((0..words as u32).map(|b| all & !(1u32 << b))); // exactly one word stale
                            m.extend((0..words as u32).map(|b| 1u32 << b)); // exactly one word new
                            m.extend((0..=words as u32).map(|p| ((1u32 << words) - 1) & !((1u32 << p) - 1))); // suffixes
                            for _ in 0..(if thorough { 300 } else { 40 }) {
                                m.push(rng.below(1 << words) as u32);
                            }
                            m
                        };
                        for others in [true, false] {
                            for m in &masks {
                                let mut t = durable.clone();
                                t.resize(base_len, 0);
                                if others {
                                    for (i, w2) in pending.iter().enumerate() {
                                        if i != hi {
                                            apply(&mut t, w2, None);
                                        }
                                    }
                                }
                                let mut rs: Vec<(usize, usize)> = (0..words).filter(|b| m & (1 << b) != 0).map(|b| (b * 8, b * 8 + 8)).collect();
                                rs.push((words * 8, hw.data.len())); // the rest of the page is padding
                                apply(&mut t, &hw, Some(&rs));
                                st.torn_header_images += 1;
                                test_image!(&t, ImageRecipe { commit: k, kind: format!("power-loss-header-torn:words {:#015b}, other pending writes {}", m, if others { "present" } else { "absent" }), applied: vec![(hi, rs.clone())], pending: n, file_len: t.len() as u64 }, prev, new, false);
                            }
                        }
                    }
                }
                durable = cache.clone();
                pending.clear();
            }
            Ev::Truncate { len } => {
                cache.resize(*len as usize, 0);
                len_now = *len;
            }
            _ => {}
        }
    }
}

pub fn run(ctx: &Ctx) -> Shard {
    let mut shard = Shard::new("C02");
    let vio = match Vio::get() {
        Some(v) => v,
        None => {
            shard.notes.push("I/O shim not preloaded (LD_PRELOAD=shim/ioshim.so): nothing observed".into());
            return shard;
        }
    };
    let scratch = Scratch::new("C02");
    let mut rng = Rng::new(ctx.shard_seed());
    let mut st = St::default();
    let workloads: Vec<Workload> = if let Some(rp) = &ctx.replay {
        let doc: serde_json::Value = serde_json::from_slice(&std::fs::read(rp).expect("read replay")).expect("parse");
        vec![serde_json::from_value(doc["case"]["workload"].clone()).expect("workload")]
    } else {
        gen_workloads(ctx, &mut rng)
    };
    let t_start = std::time::Instant::now();
    let budget_s: u64 = ctx.get("budget_s").and_then(|s| s.parse().ok()).unwrap_or(if ctx.thorough() { 420 } else { 90 });
    let mut skipped = 0u64;
    for (wi, wl) in workloads.iter().enumerate() {
        if t_start.elapsed().as_secs() > budget_s && ctx.replay.is_none() {
            skipped += 1;
            continue;
        }
        let h = &wl.history;
        if h.origin == "directed" || wl.label.starts_with("multi-page free list") {
            st.directed += 1;
        }
        let path = scratch.fresh("rec");
        let log = scratch.path("iolog.bin");
        let _ = std::fs::remove_file(&log);
        vio.reset();
        vio.set_log(Some(&log));
        // ---- record
        let cfg = ExecCfg::default();
        let mut run = Run::new(&cfg, h.pagesize);
        let mut states: Vec<MBucket> = vec![MBucket::default()];
        let mut committed = MBucket::default();
        let mut base_img: Vec<u8> = Vec::new();
        if let Some(name) = &wl.base {
            let dir = std::path::PathBuf::from(ctx.get("golden").unwrap_or("/verif/out/golden"));
            let mname = format!("golden-{}.manifest.json", h.pagesize);
            let doc: Option<serde_json::Value> = std::fs::read(dir.join(&mname)).ok().and_then(|b| serde_json::from_slice(&b).ok());
            match (std::fs::read(dir.join(name)), doc) {
                (Ok(bytes), Some(doc)) => {
                    committed = crate::c15::manifest_bucket(&doc["contents"]);
                    states = vec![committed.clone()];
                    vio.set_log(None); // the copy itself is not part of the recorded execution
                    std::fs::write(&path, &bytes).expect("copy golden file");
                    vio.set_log(Some(&log));
                    base_img = bytes;
                    st.golden_based += 1;
                }
                _ => {
                    shard.inconclusive(format!("[{}] golden file or manifest missing", wl.label));
                    continue;
                }
            }
        }
        // a quarter of the random workloads are recorded with direct_writes(true): the order of writes and
        // syncs must be the same (an "O_DIRECT data is on disk when write returns" shortcut would drop a sync)
        let direct = wl.base.is_none() && h.origin != "directed" && wi % 4 == 1;
        let with_reader = wl.base.is_none() && h.origin != "directed" && wi % 4 == 2;
        if with_reader {
            st.reader_workloads += 1;
        }
        exec::set_direct_writes(direct);
        if direct {
            st.direct_workloads += 1;
        }
        let rec = util::catch(|| -> Result<(), String> {
            let mut db = exec::open_db(&path, h).map_err(|e| e.to_string())?;
            for (k, t) in h.txs.iter().enumerate() {
                vio.mark(&format!("B {}", k));
                if with_reader && !t.reopen {
                    // a reader is open when the writer begins and is gone again before the writer commits
                    // (what the writer decided about pending pages at its begin must still hold at its commit)
                    let reader = std::cell::RefCell::new(db.tx(false).ok());
                    let close = || {
                        reader.borrow_mut().take();
                    };
                    exec::exec_tx_mid(&mut run, &db, &path, t, k, &mut committed, Some(&close));
                } else {
                    exec::exec_tx(&mut run, &db, &path, t, k, &mut committed);
                }
                if run.out.aborted {
                    return Err(crate::report::workload_failure(run.out.violations.first(), &format!("transaction {} was cut short", k)));
                }
                let committed_now = t.end == End::Commit && !t.ops.iter().any(|o| matches!(o, Op::Misuse { .. }));
                vio.mark(&format!("E {} {}", k, if committed_now { "ok" } else { "rb" }));
                states.push(committed.clone());
                if t.reopen {
                    drop(db);
                    db = exec::open_db(&path, h).map_err(|e| e.to_string())?;
                }
            }
            Ok(())
        });
        vio.set_log(None);
        exec::set_direct_writes(false);
        let real_final = std::fs::read(&path).ok();
        let _ = std::fs::remove_file(&path);
        shard.evaluations += 1;
        match rec {
            Ok(Ok(())) => {}
            Ok(Err(e)) => {
                shard.inconclusive_or_workload(ctx, &format!("[{}]", wl.label), &e, &serde_json::json!({"kind": "c02-recording", "workload": wl}));
                continue;
            }
            Err(p) => {
                let sig = format!("workload:{}", util::panic_signature(&p));
                shard.violation(ctx, &sig, &format!("[{}] the recorded (fault-free) execution panicked at {}:{}: {}", wl.label, p.file, p.line, p.msg), &serde_json::json!({"kind": "c02-recording", "workload": wl}));
                continue;
            }
        }
        let evs = match std::fs::read(&log).map_err(|e| e.to_string()).and_then(|b| vio::parse_log(&b)) {
            Ok(e) => e,
            Err(e) => {
                shard.inconclusive(format!("cannot parse the I/O log: {}", e));
                continue;
            }
        };
        // recorder fidelity: every crash image below is built from the recorded writes, so the record must
        // account for the file as it really is at the end of the execution.  If the code under test reaches
        // the file by a route the recorder does not see (a shared writable mapping, a raw system call) the
        // images would be fiction and every verdict on them a false alarm: no verdict then.
        if let Some(real) = &real_final {
            let rebuilt = reconstruct(&evs, &base_img);
            let n = real.len().min(rebuilt.len());
            let same = real[..n] == rebuilt[..n] && real[n..].iter().all(|b| *b == 0) && rebuilt[n..].iter().all(|b| *b == 0);
            if !same {
                let at = (0..n).find(|i| real[*i] != rebuilt[*i]).unwrap_or(n);
                shard.inconclusive(format!("[{}] the recorded writes do not reproduce the file (first difference at byte {}, real length {}, rebuilt length {}): the I/O recorder does not see every write of this build, no crash image is judged", wl.label, at, real.len(), rebuilt.len()));
                st.fidelity_failures += 1;
                continue;
            }
            st.fidelity_checked += 1;
        }
        let probe_path = scratch.fresh("img");
        let before = st.images;
        analyse(ctx, &mut shard, wl, &evs, &states, &probe_path, &mut st, &mut rng, &base_img);
        let _ = std::fs::remove_file(&probe_path);
        let _ = std::fs::remove_file(&log);
        if shard.samples.len() < 2 {
            shard.sample(serde_json::json!({"workload": wl.label, "transactions": h.txs.len(), "io_events_recorded": evs.len(), "crash_images_tested": st.images - before}));
        }
    }
    shard.distinct = st.distinct.clone();
    shard.nontrivial = st.distinct.clone();
    shard.evaluations = st.images.max(shard.evaluations);
    shard.count("workloads", workloads.len() as u64 - skipped);
    shard.count("workloads_skipped_by_time_budget", skipped);
    shard.count("commits_analysed", st.commits);
    shard.count("write_events_recorded", st.writes);
    shard.count("sync_events_recorded", st.syncs);
    shard.count("crash_images_tested(distinct bytes)", st.images);
    shard.count("images_showing_previous_state", st.images_prev);
    shard.count("images_showing_new_state", st.images_new);
    shard.count("process_kill_images_generated", st.kill_images);
    shard.count("power_loss_subset_images_generated", st.power_images);
    shard.count("sector_torn_images_generated", st.torn_sector_images);
    shard.count("header_word_torn_images_generated", st.torn_header_images);
    shard.count("images_followed_by_one_more_commit", st.extra_commits);
    shard.count("sync_segments_with_header_and_data_both_pending", st.segments_with_header_and_data_pending);
    shard.count("max_pending_writes_at_a_sync", 0);
    shard.count("max_pending", st.max_pending);
    shard.count("recordings_whose_writes_reproduce_the_real_file_byte_for_byte", st.fidelity_checked);
    shard.count("recordings_rejected_because_the_recorder_missed_writes", st.fidelity_failures);
    shard.count("directed_workloads", st.directed);
    shard.count("workloads_recorded_with_direct_writes", st.direct_workloads);
    shard.count("workloads_with_a_reader_open_at_every_writer_begin_and_closed_before_its_commit", st.reader_workloads);
    shard.count("workloads_on_files_written_by_the_pinned_release", st.golden_based);
    shard.count("commits_that_extended_the_file", st.growth_commits);
    shard.count("commits_with_a_multi_page_free_list", st.multi_page_freelist_commits);
    for s in &st.shapes {
        shard.set("commit_write_set_shapes", s.clone());
    }
    shard
}
