//! C16 – open options change performance, not behaviour.  The same histories
//! are replayed under the product of page sizes, initial page counts, strict
//! mode and map-populate and compared with the configuration-free model;
//! growth runs cross several extension steps; page sizes that are not a
//! multiple of the word size are tried in a child process and must either work
//! or be refused cleanly.
use crate::exec::{self, Class, ExecCfg};
use crate::gen::{self, GenCfg};
use crate::ops::*;
use crate::report::{Ctx, Shard};
use crate::shape;
use crate::util::{self, Rng, Scratch};
use serde::{Deserialize, Serialize};

#[derive(Clone, Debug, Serialize, Deserialize, PartialEq, Eq, Hash)]
pub struct Cfg {
    pub pagesize: u64,
    pub num_pages: usize,
    pub strict: bool,
    pub populate: bool,
    /// `direct_writes(true)` (O_DIRECT): the fifth open option; the property's text names four, the
    /// builder has five, and the promise "options change performance, not behaviour" reads the same for it
    #[serde(default)]
    pub direct: bool,
}

pub const SIZES: [u64; 9] = [1024, 1032, 2048, 3000, 4096, 5000, 16384, 65536, 1 << 20];
pub const PAGES: [usize; 3] = [4, 32, 1000];
pub const ODD: [u64; 7] = [1025, 1027, 1030, 2049, 4097, 5001, 65537];

pub fn configs(thorough: bool) -> Vec<Cfg> {
    let mut v = Vec::new();
    if thorough {
        for ps in SIZES {
            for np in PAGES {
                for strict in [false, true] {
                    for populate in [false, true] {
                        v.push(Cfg { pagesize: ps, num_pages: np, strict, populate, direct: false });
                    }
                }
            }
        }
    } else {
        // pairwise covering subset: every (size, pages), (size, strict), (size, populate),
        // (pages, strict), (pages, populate), (strict, populate) pair appears
        for (i, ps) in SIZES.iter().enumerate() {
            for (j, np) in PAGES.iter().enumerate() {
                if *ps == 1 << 20 && *np == 1000 {
                    continue; // 1 GiB file: thorough tier only
                }
                let strict = (i + j) % 2 == 0;
                let populate = (i + 2 * j) % 4 < 2;
                v.push(Cfg { pagesize: *ps, num_pages: *np, strict, populate, direct: false });
            }
        }
        v.push(Cfg { pagesize: 1024, num_pages: 4, strict: true, populate: true, direct: false });
        v.push(Cfg { pagesize: 4096, num_pages: 32, strict: false, populate: false, direct: false });
        v.push(Cfg { pagesize: 1024, num_pages: 4, strict: false, populate: false, direct: true });
        v.push(Cfg { pagesize: 4096, num_pages: 32, strict: true, populate: true, direct: true });
        v.push(Cfg { pagesize: 5000, num_pages: 4, strict: false, populate: true, direct: true });
    }
    v
}

fn reports(c: Class) -> bool {
    !matches!(c, Class::RollbackTrace | Class::ErrChanged)
}

fn exec_cfg() -> ExecCfg {
    ExecCfg { verify_after_commit: true, fileck_each_commit: true, recheck_handed_back: true, ..Default::default() }
}

fn with_cfg(h: &History, c: &Cfg) -> History {
    // the free-list walk is about lengths relative to the page size (a list that exactly fills its page): it
    // is rebuilt for the configuration's page size instead of being replayed with 1 KiB arithmetic
    if h.origin.starts_with("free-list walk") && c.pagesize <= 5000 {
        if let Some(mut w) = shape::freelist_walk_history(c.pagesize, if h.origin.contains("[reopen]") { 2 } else { 0 }) {
            w.origin = h.origin.clone();
            w.num_pages = c.num_pages;
            w.strict = c.strict;
            w.populate = c.populate;
            return w;
        }
    }
    let mut h = h.clone();
    h.pagesize = c.pagesize;
    h.num_pages = c.num_pages;
    h.strict = c.strict;
    h.populate = c.populate;
    h
}

/// histories whose sizes are absolute (generated once, replayed everywhere)
fn base_histories(rng: &mut Rng, n: usize) -> Vec<History> {
    let mut v = Vec::new();
    for i in 0..n {
        let profile = (i % gen::N_PROFILES as usize) as u8;
        let mut g = GenCfg::default_for(1024, profile);
        g.n_txs = (2, 6);
        g.ops_per_tx = (4, 30);
        g.p_reopen = 20;
        v.push(gen::gen_history(rng, &g));
    }
    // shape-directed ones (their shapes move with the page size)
    for bs in shape::base_shapes(1024, false) {
        let p = shape::Plan { shape: bs.clone(), pagesize: 1024, depth: 0, leaves: vec![], windows: vec![(0..bs.n_keys.min(8)).collect()] };
        for mask in [0b1u32, 0b11, 0b1111, 0b10101, 0b11111111] {
            v.push(shape::subset_history(&p, 0, mask, 0));
            v.push(shape::subset_history(&p, 0, mask, 3));
        }
    }
    v.push(freelist_reopen_history());
    v.push(boundary_sweep_history());
    // the free list consumed entry by entry through the lengths that exactly fill its page (rebuilt per page
    // size in `with_cfg`): where exactly that happens is a function of the page size, which is what makes a
    // slip there a configuration-dependent result (seeded change C16-o / C02-p computed the length of the old
    // free-list block from the entry count: one page too many at exactly 123 / 507 / 620 entries)
    for tag in ["", " [reopen]"] {
        if let Some(mut w) = shape::freelist_walk_history(1024, 0) {
            w.origin = format!("free-list walk{}", tag);
            v.push(w);
        }
    }
    // the root directory as a multi-page tree (17 ten-byte names fill a 1 KiB leaf; 68 a 4 KiB one)
    for (n, a, b) in [(20usize, 0usize, 17usize), (18, 0, 9), (40, 0, 34), (90, 0, 68), (90, 17, 90), (300, 0, 283)] {
        v.push(shape::root_dir_history(1024, n, a, b));
    }
    // deep trees (key size relative to 1 KiB pages: five to eight levels there, two or three at 16 KiB) with
    // cascading collapses: all but two keys deleted in one transaction; three quarters from the front
    for idx in [3usize, 0] {
        if let Some(h) = shape::deep_tree_history(1024, idx) {
            v.push(h);
        }
    }
    v
}

/// One value overwritten with every length within [k*ps - 100, k*ps + 20] (k = 1, 2) for every page
/// size of the product up to 16 KiB, one byte per commit: whatever the configured page size is, the
/// leaf that holds the value passes through "exactly one page", "exactly two pages" and their neighbours.
fn boundary_sweep_history() -> History {
    let mut lens: Vec<usize> = (0..64).collect();
    for ps in SIZES.iter().filter(|p| **p <= 16384) {
        for k in 1..=2usize {
            let c = k * *ps as usize;
            lens.extend(c - 100..=c + 20);
        }
    }
    lens.sort();
    lens.dedup();
    let mut txs = vec![TxScript { ops: vec![Op::TxCreate { k: K::lit(b"fit"), how: How::Slice }, Op::Put { h: 0, k: K::lit(b"a-neighbour"), v: V { tag: 3, len: 90 }, how: How::Slice, vhow: How::Slice }], end: End::Commit, reopen: false }];
    for (i, len) in lens.iter().enumerate() {
        txs.push(TxScript {
            ops: vec![Op::TxGet { k: K::lit(b"fit"), how: How::Slice }, Op::Put { h: 0, k: K::lit(b"swept"), v: V { tag: 1000 + i as u64, len: *len }, how: How::Slice, vhow: How::Slice }],
            end: End::Commit,
            reopen: i % 211 == 17,
        });
    }
    History { pagesize: 1024, num_pages: 8, strict: false, populate: false, txs, origin: format!("boundary sweep: {} value lengths around the page-size multiples", lens.len()), pins: vec![] }
}

/// A free list of more than a thousand entries (several pages at the small page sizes) that is
/// written, read back by a reopen, rewritten by small commits and consumed again.
fn freelist_reopen_history() -> History {
    let put = |h: H, j: usize, tag: u64, len: usize| Op::Put { h, k: K { pre: format!("fl{:05}", j).into_bytes(), fill: 4, post: vec![] }, v: V { tag, len }, how: How::Slice, vhow: How::Slice };
    let small = |tag: u64| TxScript { ops: vec![Op::TxGetOrCreate { k: K::lit(b"keep"), how: How::Slice }, put(0, (tag % 7) as usize, tag, 40 + (tag % 5) as usize * 100)], end: End::Commit, reopen: false };
    let mut txs = Vec::new();
    let mut ops = vec![Op::TxCreate { k: K::lit(b"bulk"), how: How::Slice }];
    for j in 0..450 {
        ops.push(put(0, j, 100 + j as u64, 9 * 1024 + (j % 3) * 700));
    }
    txs.push(TxScript { ops, end: End::Commit, reopen: false });
    txs.push(small(1));
    txs.push(TxScript { ops: vec![Op::TxDelete { k: K::lit(b"bulk"), how: How::Slice }], end: End::Commit, reopen: true });
    txs.push(small(2));
    let mut t = small(3);
    t.reopen = true;
    txs.push(t);
    txs.push(small(4));
    let mut ops = vec![Op::TxCreate { k: K::lit(b"bulk"), how: How::Slice }];
    for j in 0..200 {
        ops.push(put(0, j, 5000 + j as u64, 9 * 1024));
    }
    txs.push(TxScript { ops, end: End::Commit, reopen: true });
    txs.push(small(5));
    txs.push(TxScript { ops: vec![Op::TxDelete { k: K::lit(b"bulk"), how: How::Slice }], end: End::Commit, reopen: false });
    let mut t = small(6);
    t.reopen = true;
    txs.push(t);
    txs.push(small(7));
    History { pagesize: 1024, num_pages: 8, strict: false, populate: false, txs, origin: "free list of >1000 entries across reopen".into(), pins: vec![] }
}

/// growth run: from the minimum file through several 8 MiB extension steps
fn growth_history(total_mib: usize, chunk_kib: usize) -> History {
    let mut txs = Vec::new();
    let mut tag = 1u64;
    let per_tx = 6 * 1024 / chunk_kib; // ~6 MiB per transaction
    let n_tx = (total_mib + 5) / 6;
    for t in 0..n_tx {
        let mut ops = vec![Op::TxGetOrCreate { k: K::lit(b"g"), how: How::Slice }];
        for i in 0..per_tx {
            tag += 1;
            ops.push(Op::Put { h: 0, k: K { pre: format!("blob{:03}-{:04}", t, i).into_bytes(), fill: 0, post: vec![] }, v: V { tag, len: chunk_kib * 1024 }, how: How::Slice, vhow: How::Slice });
        }
        if t > 0 {
            // overwrite and delete something older so that freed multi-page runs get reused
            ops.push(Op::Delete { h: 0, k: K { pre: format!("blob{:03}-{:04}", t - 1, 0).into_bytes(), fill: 0, post: vec![] } });
        }
        txs.push(TxScript { ops, end: End::Commit, reopen: t % 2 == 1 });
    }
    History { pagesize: 4096, num_pages: 4, strict: false, populate: false, txs, origin: format!("growth run {} MiB in {} KiB values", total_mib, chunk_kib), pins: vec![] }
}

/// one commit that needs several extension steps at once (a bulk load), then ordinary commits
fn bulk_growth_history(mib: usize) -> History {
    let mut txs = Vec::new();
    let mut ops = vec![Op::TxGetOrCreate { k: K::lit(b"bulk"), how: How::Slice }];
    let n = mib * 2;
    for i in 0..n {
        ops.push(Op::Put { h: 0, k: K { pre: format!("part-{:04}", i).into_bytes(), fill: 0, post: vec![] }, v: V { tag: 70_000 + i as u64, len: 512 * 1024 }, how: How::Slice, vhow: How::Slice });
    }
    txs.push(TxScript { ops, end: End::Commit, reopen: false });
    // read back through the same handle (the executor does) and keep going on it
    txs.push(TxScript { ops: vec![Op::TxGet { k: K::lit(b"bulk"), how: How::Slice }, Op::Put { h: 0, k: K::lit(b"after"), v: V { tag: 1, len: 100 }, how: How::Slice, vhow: How::Slice }, Op::Scan { h: 0 }], end: End::Commit, reopen: true });
    History { pagesize: 4096, num_pages: 4, strict: false, populate: false, txs, origin: format!("bulk load of {} MiB in a single commit", mib), pins: vec![] }
}

/// walk the page high-water mark, one small commit at a time, across the end of the file that the
/// first extension produced: with page sizes that do not divide the extension step one page straddles it
fn boundary_walk_history(ps: u64) -> History {
    let step: u64 = 8 * 1024 * 1024;
    let mut txs = Vec::new();
    // first commit: fill to some 150 pages below the end of the file as it is after the first extension
    let target_pages = (step + 4 * ps) / ps;
    let per_value = 8 * ps as usize;
    let n_fill = (target_pages as usize).saturating_sub(150) / 9;
    let mut ops = vec![Op::TxGetOrCreate { k: K::lit(b"walk"), how: How::Slice }];
    for i in 0..n_fill {
        ops.push(Op::Put { h: 0, k: K { pre: format!("fill-{:05}", i).into_bytes(), fill: 0, post: vec![] }, v: V { tag: 80_000 + i as u64, len: per_value }, how: How::Slice, vhow: How::Slice });
    }
    txs.push(TxScript { ops, end: End::Commit, reopen: false });
    // then creep: every commit adds one half-page value to a separate small bucket, so the
    // high-water mark rises by a page or two at a time and passes through every page count
    for i in 0..420usize {
        let ops = vec![
            Op::TxGetOrCreate { k: K::lit(b"creep"), how: How::Slice },
            Op::Put { h: 0, k: K { pre: format!("step-{:05}", i).into_bytes(), fill: 0, post: vec![] }, v: V { tag: 90_000 + i as u64, len: ps as usize / 2 }, how: How::Slice, vhow: How::Slice },
            Op::Get { h: 0, k: K { pre: format!("step-{:05}", i).into_bytes(), fill: 0, post: vec![] } },
        ];
        txs.push(TxScript { ops, end: End::Commit, reopen: false });
    }
    History { pagesize: ps, num_pages: 4, strict: false, populate: false, txs, origin: format!("boundary walk across the first extension at page size {}", ps), pins: vec![] }
}

/// A value of a little over 16 MiB is stored, deleted, and replaced by one whose leaf is exactly one
/// byte longer than a whole number of pages, landing in the run the first one left, with small buckets
/// created in between (their pages follow the run) and modified afterwards.  Sizes relative to the page
/// size (rounding of byte counts to page counts) must not depend on the magnitude of the block.
fn huge_value_history(ps: u64) -> History {
    let p = ps as usize;
    let k = (16 << 20) / p + 1; // pages: just past 16 MiB
    let overhead = 40 + 32 + 1; // page header + leaf element + 1-byte key
    let first = k * p - 100 - overhead;
    let second = k * p + 1 - overhead;
    let put = |h: H, key: &[u8], tag: u64, len: usize| Op::Put { h, k: K::lit(key), v: V { tag, len }, how: How::Slice, vhow: How::Slice };
    let tx = |ops: Vec<Op>| TxScript { ops, end: End::Commit, reopen: false };
    let mut txs = vec![
        tx(vec![Op::TxCreate { k: K::lit(b"blob"), how: How::Slice }, put(0, b"k", 1_000_001, first)]),
        tx(vec![Op::TxCreate { k: K::lit(b"tail"), how: How::Slice }, put(0, b"a", 2, 1)]),
        tx(vec![Op::TxCreate { k: K::lit(b"tail2"), how: How::Slice }, put(0, b"a", 3, 1)]),
        tx(vec![Op::TxGet { k: K::lit(b"blob"), how: How::Slice }, Op::Delete { h: 0, k: K::lit(b"k") }]),
        tx(vec![Op::TxGet { k: K::lit(b"blob"), how: How::Slice }, put(0, b"k", 1_000_004, second)]),
        tx(vec![Op::TxGet { k: K::lit(b"blob"), how: How::Slice }, Op::GetKv { h: 0, k: K::lit(b"k") }, Op::TxGet { k: K::lit(b"tail"), how: How::Slice }, Op::GetKv { h: 1, k: K::lit(b"a") }, Op::TxGet { k: K::lit(b"tail2"), how: How::Slice }, Op::GetKv { h: 2, k: K::lit(b"a") }, put(1, b"a", 5, 1), put(1, b"b", 6, 1), put(2, b"a", 7, 1), put(2, b"b", 8, 1)]),
    ];
    txs.last_mut().unwrap().reopen = true;
    txs.push(tx(vec![Op::TxGet { k: K::lit(b"blob"), how: How::Slice }, Op::Scan { h: 0 }, Op::TxBuckets]));
    History { pagesize: ps, num_pages: 4, strict: false, populate: false, txs, origin: format!("16 MiB value replaced by one whose leaf is {} pages + 1 byte", k), pins: vec![] }
}

// ---------------------------------------------------------------------------
// odd page sizes, in a child process

#[derive(Serialize, Deserialize, Debug)]
pub struct OddResult {
    pub outcome: String,
    pub detail: String,
}

/// Body of `vh cfg-worker`: try one page size on a fresh path and on an existing file.
pub fn worker(ctx: &Ctx) -> OddResult {
    let ps: u64 = ctx.get("pagesize").and_then(|s| s.parse().ok()).expect("pagesize");
    let dir = std::path::PathBuf::from(ctx.get("dir").expect("dir"));
    let fresh = dir.join(format!("odd-{}.db", ps));
    let _ = std::fs::remove_file(&fresh);
    let hist: History = serde_json::from_slice(&std::fs::read(ctx.get("history").expect("history")).expect("read history")).expect("parse history");
    let mut h = hist.clone();
    h.pagesize = ps;
    // 1. builder / open on a path that does not exist yet
    let r = util::catch(|| exec::open_db(&fresh, &h).map(|_| ()));
    match r {
        Err(p) => {
            // refused by a panic: nothing may have been created or modified
            if fresh.exists() {
                return OddResult { outcome: "violation".into(), detail: format!("page size {} was refused with a panic ({}) but a file was left behind", ps, p.msg) };
            }
            OddResult { outcome: "refused".into(), detail: format!("panic: {}", p.msg) }
        }
        Ok(Err(e)) => {
            if fresh.exists() && std::fs::metadata(&fresh).map(|m| m.len()).unwrap_or(0) > 0 {
                return OddResult { outcome: "violation".into(), detail: format!("page size {} was refused with an error ({}) after the file had been written", ps, e) };
            }
            OddResult { outcome: "refused".into(), detail: format!("error: {}", e) }
        }
        Ok(Ok(())) => {
            // accepted: then it has to work like any other size
            let _ = std::fs::remove_file(&fresh);
            let out = exec::run_history(&h, &exec_cfg(), &fresh);
            let _ = std::fs::remove_file(&fresh);
            match out.violations.iter().find(|v| reports(v.class)) {
                Some(v) => OddResult { outcome: "violation".into(), detail: format!("page size {} is accepted but misbehaves: {}", ps, v.detail) },
                None => OddResult { outcome: "works".into(), detail: format!("{} commits verified", out.stats.commits) },
            }
        }
    }
}

fn run_odd(ctx: &Ctx, shard: &mut Shard, ps: u64, hist_path: &std::path::Path, dir: &std::path::Path, profile_bin: &std::path::Path) {
    let out = std::process::Command::new(profile_bin)
        .arg("cfg-worker")
        .arg("--set")
        .arg(format!("pagesize={}", ps))
        .arg("--set")
        .arg(format!("dir={}", dir.display()))
        .arg("--set")
        .arg(format!("history={}", hist_path.display()))
        .env_remove("LD_PRELOAD")
        .output();
    shard.evaluations += 1;
    match out {
        Err(e) => shard.inconclusive(format!("cannot start the child process: {}", e)),
        Ok(o) => {
            let replay = serde_json::json!({"kind": "odd-pagesize", "pagesize": ps});
            if !o.status.success() {
                use std::os::unix::process::ExitStatusExt;
                let how = match o.status.signal() {
                    Some(s) => format!("signal {}", s),
                    None => format!("exit status {:?}", o.status.code()),
                };
                let err = String::from_utf8_lossy(&o.stderr);
                shard.violation(
                    ctx,
                    "odd-pagesize:process-dies",
                    &format!("page size {} is accepted by the builder and the process dies ({}): {}", ps, how, err.chars().rev().take(300).collect::<String>().chars().rev().collect::<String>()),
                    &replay,
                );
                return;
            }
            match serde_json::from_slice::<OddResult>(&o.stdout) {
                Ok(r) => {
                    shard.count(&format!("odd_pagesize:{}", r.outcome), 1);
                    shard.set("odd_pagesizes", format!("{}: {} ({})", ps, r.outcome, r.detail.chars().take(80).collect::<String>()));
                    if r.outcome == "violation" {
                        shard.violation(ctx, "odd-pagesize:misbehaves", &r.detail, &replay);
                    }
                }
                Err(e) => shard.inconclusive(format!("child output unreadable: {}", e)),
            }
        }
    }
}

pub fn run(ctx: &Ctx) -> Shard {
    let mut shard = Shard::new("C16");
    let scratch = Scratch::new("C16");
    let cur = std::env::var("VH_CURRENT").ok();
    if let Some(rp) = &ctx.replay {
        let doc: serde_json::Value = serde_json::from_slice(&std::fs::read(rp).expect("read replay")).expect("parse");
        if doc["case"]["kind"] == "odd-pagesize" {
            let ps = doc["case"]["pagesize"].as_u64().unwrap();
            let hp = scratch.path("odd-history.json");
            let mut rng = Rng::new(1);
            std::fs::write(&hp, serde_json::to_vec(&base_histories(&mut rng, 1)[0]).unwrap()).unwrap();
            run_odd(ctx, &mut shard, ps, &hp, &scratch.dir, &std::env::current_exe().unwrap());
            return shard;
        }
        let h: History = serde_json::from_value(doc["case"]["history"].clone()).expect("history");
        let path = scratch.fresh("r");
        let out = exec::run_history(&h, &exec_cfg(), &path);
        shard.evaluations += 1;
        for v in out.violations.iter().filter(|v| reports(v.class)) {
            shard.violation(ctx, &format!("cfg:{}", v.sig), &v.detail, &doc["case"]);
        }
        return shard;
    }
    let mut rng = Rng::new(ctx.seed ^ 0xC16); // same histories in every shard; work is split by index
    let hs = base_histories(&mut rng, if ctx.thorough() { 40 } else { 12 });
    let cfgs = configs(ctx.thorough());
    let mut idx = 0u64;
    let mut total = exec::Stats::default();
    for (ci, c) in cfgs.iter().enumerate() {
        let huge = c.pagesize >= (1 << 20) && c.num_pages >= 1000;
        for (hi, h) in hs.iter().enumerate() {
            idx += 1;
            // the 1 GiB configuration runs in one shard only, on a few histories, serially
            if huge {
                if ctx.shard != 0 || hi >= 3 {
                    continue;
                }
            } else if idx % ctx.nshards != ctx.shard {
                continue;
            }
            if c.pagesize >= 65536 && hi % 3 != 0 {
                continue; // large pages: every third history
            }
            let hc = with_cfg(h, c);
            if let Some(cu) = &cur {
                let _ = std::fs::write(cu, serde_json::to_vec(&serde_json::json!({"kind": "history", "history": hc})).unwrap());
            }
            let path = scratch.fresh("c16");
            exec::set_direct_writes(c.direct);
            let out = exec::run_history(&hc, &exec_cfg(), &path);
            exec::set_direct_writes(false);
            if c.direct {
                shard.count("histories_with_direct_writes", 1);
            }
            let _ = std::fs::remove_file(&path);
            shard.evaluations += 1;
            let hh = util::fnv64(format!("{:?}|{}", c, h.hash()).as_bytes());
            shard.distinct.insert(hh);
            if out.stats.commits > 0 && !out.aborted {
                shard.nontrivial.insert(hh);
            }
            total.merge(&out.stats);
            shard.set("configurations(pagesize,pages,strict,populate)", format!("{} {} {} {}{}", c.pagesize, c.num_pages, c.strict, c.populate, if c.direct { " direct" } else { "" }));
            shard.count(&format!("histories_at_pagesize_{}", c.pagesize), 1);
            if c.strict {
                shard.count("commits_under_strict_mode", out.stats.commits);
            }
            for v in out.violations.iter().filter(|v| reports(v.class)) {
                let replay = serde_json::json!({"kind": "history", "history": hc});
                shard.violation(ctx, &format!("cfg:{}", v.sig), &format!("[pagesize={} pages={} strict={} populate={}] {}", c.pagesize, c.num_pages, c.strict, c.populate, v.detail), &replay);
            }
            if shard.samples.len() < 2 && ci % 5 == 1 {
                shard.sample(serde_json::json!({"config": c, "history_origin": h.origin, "txs": h.txs.len(), "commits_verified": out.stats.commits}));
            }
            let _ = ci;
        }
    }
    // growth runs: from the 4-page minimum file through several extension steps
    let growth: Vec<(usize, usize, Cfg)> = if ctx.thorough() {
        vec![
            (40, 512, Cfg { pagesize: 4096, num_pages: 4, strict: false, populate: false, direct: false }),
            (40, 512, Cfg { pagesize: 1024, num_pages: 4, strict: true, populate: true, direct: false }),
            (30, 3072, Cfg { pagesize: 16384, num_pages: 4, strict: false, populate: true, direct: false }),
            (60, 1024, Cfg { pagesize: 5000, num_pages: 4, strict: false, populate: false, direct: false }),
            (30, 256, Cfg { pagesize: 1032, num_pages: 4, strict: true, populate: false, direct: false }),
            (70, 2048, Cfg { pagesize: 65536, num_pages: 4, strict: false, populate: false, direct: false }),
        ]
    } else {
        vec![
            (30, 512, Cfg { pagesize: 4096, num_pages: 4, strict: false, populate: false, direct: false }),
            (26, 1024, Cfg { pagesize: 1024, num_pages: 4, strict: true, populate: true, direct: false }),
            (26, 3072, Cfg { pagesize: 5000, num_pages: 4, strict: false, populate: true, direct: false }),
        ]
    };
    // directed growth histories: bulk load in one commit; walking the high-water mark over the end of the file
    let mut directed: Vec<(History, Cfg)> = vec![
        (bulk_growth_history(12), Cfg { pagesize: 4096, num_pages: 4, strict: false, populate: false, direct: false }),
        (bulk_growth_history(20), Cfg { pagesize: 1024, num_pages: 4, strict: true, populate: false, direct: false }),
        (boundary_walk_history(5000), Cfg { pagesize: 5000, num_pages: 4, strict: false, populate: false, direct: false }),
        (boundary_walk_history(3000), Cfg { pagesize: 3000, num_pages: 4, strict: true, populate: false, direct: false }),
    ];
    directed.push((huge_value_history(4096), Cfg { pagesize: 4096, num_pages: 4, strict: false, populate: false, direct: false }));
    if ctx.thorough() {
        directed.push((huge_value_history(1024), Cfg { pagesize: 1024, num_pages: 4, strict: true, populate: false, direct: false }));
        directed.push((huge_value_history(65536), Cfg { pagesize: 65536, num_pages: 4, strict: false, populate: true, direct: false }));
        directed.push((bulk_growth_history(28), Cfg { pagesize: 16384, num_pages: 32, strict: false, populate: true, direct: false }));
        directed.push((boundary_walk_history(1032), Cfg { pagesize: 1032, num_pages: 4, strict: false, populate: false, direct: false }));
        directed.push((boundary_walk_history(5000), Cfg { pagesize: 5000, num_pages: 32, strict: true, populate: true, direct: false }));
    }
    for (di, (h0, c)) in directed.iter().enumerate() {
        if (di as u64 + 9) % ctx.nshards != ctx.shard {
            continue;
        }
        let h = with_cfg(h0, c);
        if let Some(cu) = &cur {
            let _ = std::fs::write(cu, serde_json::to_vec(&serde_json::json!({"kind": "history", "history_origin": h.origin, "config": c})).unwrap());
        }
        let path = scratch.fresh("dir");
        let out = exec::run_history(&h, &exec_cfg(), &path);
        let _ = std::fs::remove_file(&path);
        shard.evaluations += 1;
        let hh = util::fnv64(format!("directed|{:?}|{}", c, h.origin).as_bytes());
        shard.distinct.insert(hh);
        if out.stats.growths >= 1 {
            shard.nontrivial.insert(hh);
        }
        shard.count("directed_growth_histories", 1);
        shard.set("directed_growth_histories", format!("{} -> {} commits, {} extensions", h.origin, out.stats.commits, out.stats.growths));
        total.merge(&out.stats);
        for v in out.violations.iter().filter(|v| reports(v.class)) {
            // these histories are large: the replay names the generator instead of listing 10^4 operations
            let replay = serde_json::json!({"kind": "directed-growth", "origin": h.origin, "config": c});
            shard.violation(ctx, &format!("growth:{}", v.sig), &format!("[{} pagesize={} strict={}] {}", h.origin, c.pagesize, c.strict, v.detail), &replay);
        }
    }
    for (gi, (mib, kib, c)) in growth.iter().enumerate() {
        if (gi as u64 + 3) % ctx.nshards != ctx.shard {
            continue;
        }
        let h = with_cfg(&growth_history(*mib, *kib), c);
        let path = scratch.fresh("grow");
        let out = exec::run_history(&h, &exec_cfg(), &path);
        let _ = std::fs::remove_file(&path);
        shard.evaluations += 1;
        let hh = util::fnv64(format!("growth|{:?}|{}|{}", c, mib, kib).as_bytes());
        shard.distinct.insert(hh);
        if out.stats.growths >= 2 {
            shard.nontrivial.insert(hh);
        }
        shard.count("growth_runs", 1);
        shard.count("file_extensions_observed_in_growth_runs", out.stats.growths);
        total.merge(&out.stats);
        for v in out.violations.iter().filter(|v| reports(v.class)) {
            let replay = serde_json::json!({"kind": "history", "history": h});
            shard.violation(ctx, &format!("growth:{}", v.sig), &format!("[growth run {} MiB, pagesize={}] {}", mib, c.pagesize, v.detail), &replay);
        }
    }
    // odd page sizes, each in its own process
    let hp = scratch.path("odd-history.json");
    std::fs::write(&hp, serde_json::to_vec(&hs[0]).unwrap()).unwrap();
    let exe = std::env::current_exe().unwrap();
    for (oi, ps) in ODD.iter().enumerate() {
        if (oi as u64 + 7) % ctx.nshards == ctx.shard {
            run_odd(ctx, &mut shard, *ps, &hp, &scratch.dir, &exe);
        }
    }
    shard.count("commits_verified", total.commits);
    shard.count("reopens", total.reopens);
    shard.count("file_growths", total.growths);
    shard.count("fileck_runs", total.fileck_runs);
    shard
}
