//! What one shard (one worker process) reports back to the `check` driver.
use serde::{Deserialize, Serialize};
use std::collections::{BTreeMap, BTreeSet};
use std::path::{Path, PathBuf};

#[derive(Clone, Debug, Serialize, Deserialize)]
pub struct ViolationOut {
    pub sig: String,
    pub detail: String,
    pub replay: String,
}

#[derive(Clone, Debug, Default, Serialize, Deserialize)]
pub struct Shard {
    pub property: String,
    pub evaluations: u64,
    /// hashes of the distinct non-trivial cases this shard executed
    pub nontrivial: BTreeSet<u64>,
    /// hashes of all distinct cases
    pub distinct: BTreeSet<u64>,
    /// summed by the driver (keys starting with "max_" are maximised instead)
    pub counters: BTreeMap<String, u64>,
    /// united by the driver
    pub sets: BTreeMap<String, BTreeSet<String>>,
    pub samples: Vec<serde_json::Value>,
    pub violations: Vec<ViolationOut>,
    pub inconclusive: u64,
    pub inconclusive_notes: Vec<String>,
    pub notes: Vec<String>,
    /// floors that were not met ("observed nothing" is a harness error, not a pass)
    pub exhaustive: Option<bool>,
}

impl Shard {
    pub fn new(property: &str) -> Shard {
        Shard {
            property: property.to_string(),
            ..Default::default()
        }
    }
    pub fn count(&mut self, k: &str, n: u64) {
        if k.starts_with("max_") {
            let e = self.counters.entry(k.to_string()).or_insert(0);
            *e = (*e).max(n);
        } else {
            *self.counters.entry(k.to_string()).or_insert(0) += n;
        }
    }
    pub fn set(&mut self, k: &str, v: String) {
        let s = self.sets.entry(k.to_string()).or_default();
        if s.len() < 4000 {
            s.insert(v);
        }
    }
    pub fn sample(&mut self, v: serde_json::Value) {
        if self.samples.len() < 3 {
            self.samples.push(v);
        }
    }
    pub fn inconclusive(&mut self, why: String) {
        self.inconclusive += 1;
        if self.inconclusive_notes.len() < 10 {
            self.inconclusive_notes.push(why);
        }
    }
    /// Record a violation; `replay` is written to out/replays and its path stored.
    pub fn violation(&mut self, ctx: &Ctx, sig: &str, detail: &str, replay: &serde_json::Value) {
        // one replay file per signature and shard is enough
        if self.violations.iter().filter(|v| v.sig == sig).count() >= 1 {
            return;
        }
        let h = crate::util::fnv64(format!("{}|{}|{}", self.property, sig, ctx.shard).as_bytes());
        let path = ctx
            .replay_dir
            .join(format!("{}-{:016x}.json", self.property, h));
        let doc = serde_json::json!({
            "property": self.property,
            "signature": sig,
            "detail": detail,
            "seed": ctx.seed,
            "tier": ctx.tier,
            "case": replay,
        });
        let _ = std::fs::create_dir_all(&ctx.replay_dir);
        let _ = std::fs::write(&path, serde_json::to_vec_pretty(&doc).unwrap());
        self.violations.push(ViolationOut {
            sig: sig.to_string(),
            detail: detail.chars().take(1200).collect(),
            replay: path.to_string_lossy().to_string(),
        });
    }
    pub fn write(&self, path: &Path) {
        let tmp = path.with_extension("tmp");
        std::fs::write(&tmp, serde_json::to_vec(self).unwrap()).expect("write shard result");
        std::fs::rename(&tmp, path).expect("rename shard result");
    }
}

/// Command-line context shared by all sub-commands.
#[derive(Clone, Debug)]
pub struct Ctx {
    pub tier: String,
    pub seed: u64,
    pub shard: u64,
    pub nshards: u64,
    pub out: PathBuf,
    pub replay_dir: PathBuf,
    pub replay: Option<PathBuf>,
    pub extra: BTreeMap<String, String>,
}

impl Ctx {
    pub fn thorough(&self) -> bool {
        self.tier == "thorough"
    }
    pub fn shard_seed(&self) -> u64 {
        self.seed
            .wrapping_mul(0x9E37_79B9_7F4A_7C15)
            .wrapping_add(self.shard.wrapping_mul(0xD1B5_4A32_D192_ED03))
    }
    /// scale factor: VERIF_SCALE (percent) lets a caller shrink or grow budgets
    pub fn scale(&self, n: u64) -> u64 {
        let pct: u64 = std::env::var("VERIF_SCALE")
            .ok()
            .and_then(|s| s.parse().ok())
            .unwrap_or(100);
        (n * pct / 100).max(1)
    }
    pub fn get(&self, k: &str) -> Option<&str> {
        self.extra.get(k).map(|s| s.as_str())
    }
}
