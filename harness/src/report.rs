//! What one shard (one worker process) reports back to the `check` driver.
use serde::{Deserialize, Serialize};
use std::collections::{BTreeMap, BTreeSet};
use std::path::{Path, PathBuf};

#[derive(Clone, Debug, Serialize, Deserialize)]
pub struct ViolationOut {
    pub sig: String,
    pub detail: String,
    pub replay: String,
}

#[derive(Clone, Debug, Default, Serialize, Deserialize)]
pub struct Shard {
    pub property: String,
    pub evaluations: u64,
    /// hashes of the distinct non-trivial cases this shard executed
    pub nontrivial: BTreeSet<u64>,
    /// hashes of all distinct cases
    pub distinct: BTreeSet<u64>,
    /// summed by the driver (keys starting with "max_" are maximised instead)
    pub counters: BTreeMap<String, u64>,
    /// united by the driver
    pub sets: BTreeMap<String, BTreeSet<String>>,
    pub samples: Vec<serde_json::Value>,
    pub violations: Vec<ViolationOut>,
    pub inconclusive: u64,
    pub inconclusive_notes: Vec<String>,
    pub notes: Vec<String>,
    /// floors that were not met ("observed nothing" is a harness error, not a pass)
    pub exhaustive: Option<bool>,
}

/// Progress counter and last partial result, for the stall watchdog: a call into the database that
/// never returns (seen with seeded changes that corrupt a tree into a cycle) must not take the
/// violations the worker has already recorded down with it.
pub static PROGRESS: std::sync::atomic::AtomicU64 = std::sync::atomic::AtomicU64::new(0);
static PARTIAL: std::sync::Mutex<Option<Shard>> = std::sync::Mutex::new(None);

#[inline]
pub fn progress() {
    PROGRESS.fetch_add(1, std::sync::atomic::Ordering::Relaxed);
}

/// If no progress is made for `limit_s` seconds, write what has been recorded so far (plus an
/// inconclusive note naming the stall) to `out` and end the process.  Never a violation by itself.
pub fn start_stall_watchdog(property: &str, out: PathBuf, limit_s: u64) {
    let property = property.to_string();
    let rss_limit_mb: u64 = std::env::var("VERIF_RSS_LIMIT_MB").ok().and_then(|s| s.parse().ok()).unwrap_or(3072);
    std::thread::spawn(move || {
        let mut last = PROGRESS.load(std::sync::atomic::Ordering::Relaxed);
        let mut since = std::time::Instant::now();
        // CPU time and state of the main thread (tid == pid): a stall is judged by what that thread did,
        // not by the wall clock alone
        let main_tid = std::process::id();
        let main_stat = move || -> (f64, char, bool) {
            let st = std::fs::read_to_string(format!("/proc/self/task/{}/stat", main_tid)).unwrap_or_default();
            let rest = st.rsplit_once(')').map(|x| x.1.to_string()).unwrap_or_default();
            let f: Vec<&str> = rest.split_whitespace().collect();
            let state = f.first().and_then(|x| x.chars().next()).unwrap_or('?');
            let ticks: f64 = f.get(11).and_then(|x| x.parse::<f64>().ok()).unwrap_or(0.0) + f.get(12).and_then(|x| x.parse::<f64>().ok()).unwrap_or(0.0);
            let in_futex = std::fs::read_to_string(format!("/proc/self/task/{}/syscall", main_tid)).map(|t| t.starts_with("202 ")).unwrap_or(false);
            (ticks / 100.0, state, in_futex)
        };
        let mut cpu_at_progress = main_stat().0;
        let mut futex_samples = 0u64;
        loop {
            std::thread::sleep(std::time::Duration::from_millis(1000));
            // anonymous memory of this worker (mapped database files are not counted): a seeded change
            // that loops while allocating has taken a worker to 27 GiB and the machine into the OOM killer
            let anon_mb = std::fs::read_to_string("/proc/self/status")
                .ok()
                .and_then(|t| t.lines().find(|l| l.starts_with("RssAnon:")).and_then(|l| l.split_whitespace().nth(1).and_then(|x| x.parse::<u64>().ok())))
                .unwrap_or(0)
                / 1024;
            if anon_mb > rss_limit_mb {
                let mut sh = PARTIAL.lock().map(|g| g.clone()).unwrap_or(None).unwrap_or_else(|| Shard::new(&property));
                sh.inconclusive(format!("worker stopped: its anonymous memory reached {} MiB (budget {} MiB) inside one step; the violations recorded before that are reported", anon_mb, rss_limit_mb));
                sh.counters.insert("workers_stopped_by_memory_budget".into(), 1);
                sh.write(&out);
                eprintln!("memory budget: {} MiB anonymous memory, partial results written", anon_mb);
                std::process::exit(0);
            }
            let now = PROGRESS.load(std::sync::atomic::Ordering::Relaxed);
            let (cpu, state, in_futex) = main_stat();
            if now != last {
                last = now;
                since = std::time::Instant::now();
                cpu_at_progress = cpu;
                futex_samples = 0;
                continue;
            }
            if state == 'S' && in_futex {
                futex_samples += 1;
            } else {
                futex_samples = 0;
            }
            if since.elapsed().as_secs() >= limit_s {
                let mut sh = PARTIAL.lock().map(|g| g.clone()).unwrap_or(None).unwrap_or_else(|| Shard::new(&property));
                let spent = cpu - cpu_at_progress;
                // (a) the thread burnt CPU for (nearly) the whole window inside ONE step: a loop that does not end -
                //     machine load cannot produce that, it only makes a step take longer on the wall clock;
                // (b) the thread has been asleep in a futex wait for the whole window without using CPU: it waits
                //     for a lock that nobody will release (single-threaded workers: a self-deadlock).
                let verdict = if spent >= 0.66 * limit_s as f64 {
                    Some(("non-termination:a-step-consumed-its-whole-cpu-budget", format!("one step (a call into the database or its verification) used {:.0} s of CPU time without finishing", spent)))
                } else if futex_samples + 2 >= limit_s && spent < 2.0 {
                    Some(("non-termination:blocked-on-a-lock-nobody-releases", format!("one step has been asleep in a lock wait for {} s using {:.1} s of CPU time", limit_s, spent)))
                } else {
                    None
                };
                if let Some((sig, detail)) = verdict {
                    let case = std::env::var("VH_CURRENT").ok().and_then(|p| std::fs::read(p).ok()).and_then(|b| serde_json::from_slice::<serde_json::Value>(&b).ok()).unwrap_or(serde_json::Value::Null);
                    let rp = out.with_extension("stall.json");
                    let _ = std::fs::write(&rp, serde_json::to_vec_pretty(&serde_json::json!({"property": property, "signature": sig, "detail": detail, "case": case})).unwrap());
                    sh.violations.push(ViolationOut { sig: sig.to_string(), detail: detail.clone(), replay: rp.to_string_lossy().to_string() });
                }
                sh.inconclusive(format!("worker stalled: one step (a call into the database or its verification) did not finish within {} s; the violations recorded before the stall are reported, the rest of this worker's cases were not run", limit_s));
                sh.counters.insert("workers_stalled".into(), 1);
                sh.write(&out);
                eprintln!("stall watchdog: no progress for {} s, partial results written", limit_s);
                std::process::exit(0);
            }
        }
    });
}

/// Marker carried in an error string when a check's own workload could not be executed because the
/// database misbehaved on a valid step WITHOUT any injected fault or crash (a panic, an unexpected
/// error, a wrong answer).  The properties are all quantified over these workloads and cannot hold
/// on a step that fails, so the check reports it (signature `workload:<...>`) instead of calling
/// the run inconclusive.
pub const WORKLOAD_FAILED: &str = "WORKLOAD-FAILED|";

pub fn workload_failure(v: Option<&crate::exec::Violation>, fallback: &str) -> String {
    match v {
        // the harness's own "no growth while a reader is open on this thread" guard is not the database failing
        Some(v) if v.detail.contains(crate::c03::GROW_MSG) => format!("{} ({})", fallback, crate::c03::GROW_MSG),
        Some(v) => format!("{}{}|{}", WORKLOAD_FAILED, v.sig, v.detail),
        None => fallback.to_string(),
    }
}

impl Shard {
    /// `msg` is either an ordinary reason for an inconclusive case or a `workload_failure` string.
    pub fn inconclusive_or_workload(&mut self, ctx: &Ctx, context: &str, msg: &str, replay: &serde_json::Value) {
        if let Some(pos) = msg.find(WORKLOAD_FAILED) {
            let rest = &msg[pos + WORKLOAD_FAILED.len()..];
            let (sig, detail) = rest.split_once('|').unwrap_or((rest, ""));
            self.violation(ctx, &format!("workload:{}", sig), &format!("{} the check's own workload failed without any injected fault: {}", context, detail), replay);
        } else {
            self.inconclusive(format!("{} {}", context, msg));
        }
    }

    pub fn new(property: &str) -> Shard {
        Shard {
            property: property.to_string(),
            ..Default::default()
        }
    }
    pub fn count(&mut self, k: &str, n: u64) {
        if k.starts_with("max_") {
            let e = self.counters.entry(k.to_string()).or_insert(0);
            *e = (*e).max(n);
        } else {
            *self.counters.entry(k.to_string()).or_insert(0) += n;
        }
    }
    pub fn set(&mut self, k: &str, v: String) {
        let s = self.sets.entry(k.to_string()).or_default();
        if s.len() < 4000 {
            s.insert(v);
        }
    }
    pub fn sample(&mut self, v: serde_json::Value) {
        if self.samples.len() < 3 {
            self.samples.push(v);
        }
    }
    pub fn inconclusive(&mut self, why: String) {
        self.inconclusive += 1;
        if self.inconclusive_notes.len() < 10 {
            self.inconclusive_notes.push(why);
        }
    }
    /// Record a violation; `replay` is written to out/replays and its path stored.
    pub fn violation(&mut self, ctx: &Ctx, sig: &str, detail: &str, replay: &serde_json::Value) {
        // one replay file per signature and shard is enough
        if self.violations.iter().filter(|v| v.sig == sig).count() >= 1 {
            return;
        }
        let h = crate::util::fnv64(format!("{}|{}|{}", self.property, sig, ctx.shard).as_bytes());
        let path = ctx
            .replay_dir
            .join(format!("{}-{:016x}.json", self.property, h));
        let doc = serde_json::json!({
            "property": self.property,
            "signature": sig,
            "detail": detail,
            "seed": ctx.seed,
            "tier": ctx.tier,
            "case": replay,
        });
        let _ = std::fs::create_dir_all(&ctx.replay_dir);
        let _ = std::fs::write(&path, serde_json::to_vec_pretty(&doc).unwrap());
        self.violations.push(ViolationOut {
            sig: sig.to_string(),
            detail: detail.chars().take(1200).collect(),
            replay: path.to_string_lossy().to_string(),
        });
        if let Ok(mut g) = PARTIAL.lock() {
            *g = Some(self.clone());
        }
    }
    pub fn write(&self, path: &Path) {
        let tmp = path.with_extension("tmp");
        std::fs::write(&tmp, serde_json::to_vec(self).unwrap()).expect("write shard result");
        std::fs::rename(&tmp, path).expect("rename shard result");
    }
}

/// Command-line context shared by all sub-commands.
#[derive(Clone, Debug)]
pub struct Ctx {
    pub tier: String,
    pub seed: u64,
    pub shard: u64,
    pub nshards: u64,
    pub out: PathBuf,
    pub replay_dir: PathBuf,
    pub replay: Option<PathBuf>,
    pub extra: BTreeMap<String, String>,
}

impl Ctx {
    pub fn thorough(&self) -> bool {
        self.tier == "thorough"
    }
    pub fn shard_seed(&self) -> u64 {
        self.seed
            .wrapping_mul(0x9E37_79B9_7F4A_7C15)
            .wrapping_add(self.shard.wrapping_mul(0xD1B5_4A32_D192_ED03))
    }
    /// scale factor: VERIF_SCALE (percent) lets a caller shrink or grow budgets
    pub fn scale(&self, n: u64) -> u64 {
        let pct: u64 = std::env::var("VERIF_SCALE")
            .ok()
            .and_then(|s| s.parse().ok())
            .unwrap_or(100);
        (n * pct / 100).max(1)
    }
    pub fn get(&self, k: &str) -> Option<&str> {
        self.extra.get(k).map(|s| s.as_str())
    }
}
