//! C10 – freed space is reused: the page high-water mark of a workload whose
//! live data stays bounded reaches a plateau, also across reopen; a reader
//! pins pages only while it is open.
use crate::exec::{self, ExecCfg, Run};
use crate::fileck;
use crate::model::MBucket;
use crate::ops::*;
use crate::report::{Ctx, Shard};
use crate::util::{self, Rng, Scratch};
use jammdb::{OpenOptions, DB};
use serde::{Deserialize, Serialize};

#[derive(Clone, Debug, Serialize, Deserialize)]
pub struct Case {
    pub kind: String,
    pub pagesize: u64,
    pub txs: usize,
    pub reopen_every: usize,
    /// reader held open from transaction a to c (0,0 = none)
    pub reader: (usize, usize),
    /// a reader is open at every writer begin: each transaction a new reader opens, then the previous one closes
    #[serde(default)]
    pub handover: bool,
    /// several readers: (opened before transaction a, closed before transaction c); checked in full when closed
    #[serde(default)]
    pub readers: Vec<(usize, usize)>,
    pub seed: u64,
}

fn key(i: usize) -> K {
    K {
        pre: format!("key{:04}", i).into_bytes(),
        fill: 8,
        post: vec![],
    }
}

/// one transaction of the workload
fn tx_script(kind: &str, rng: &mut Rng, t: usize, tag: &mut u64, ps: u64) -> TxScript {
    let mut ops = vec![Op::TxGetOrCreate {
        k: K::lit(b"w"),
        how: How::Slice,
    }];
    let nkeys = 60;
    let mut put = |ops: &mut Vec<Op>, h: H, i: usize, len: usize| {
        *tag += 1;
        ops.push(Op::Put {
            h,
            k: key(i),
            v: V { tag: *tag, len },
            how: How::Slice,
            vhow: How::Slice,
        });
    };
    match kind {
        "fragmented-free-set" => {
            // t=0: 6000 pairs, two per leaf on consecutive pages; t=1: every second leaf emptied (1500
            // non-adjacent free pages: the free set is large AND has no run of two at its low end);
            // then one tiny overwrite per transaction
            match t {
                0 => {
                    for i in 0..6000 {
                        *tag += 1;
                        ops.push(Op::Put { h: 0, k: K { pre: format!("f{:05}", i).into_bytes(), fill: 4, post: vec![] }, v: V { tag: *tag, len: 300 }, how: How::Slice, vhow: How::Slice });
                    }
                }
                1 => {
                    for i in 0..6000 {
                        if (i / 2) % 2 == 0 {
                            ops.push(Op::Delete { h: 0, k: K { pre: format!("f{:05}", i).into_bytes(), fill: 4, post: vec![] } });
                        }
                    }
                }
                _ => {
                    *tag += 1;
                    ops.push(Op::Put { h: 0, k: K::lit(b"tiny"), v: V { tag: *tag, len: 8 }, how: How::Slice, vhow: How::Slice });
                }
            }
        }
        "top-level-bucket-cycle" => {
            // the data lives in top-level buckets (the root directory is a small tree of its own); a cycle of
            // three transactions creates 24 of them, deletes the first half and deletes the second half - the
            // deleting transactions open nothing, so they FREE pages (leaves of the directory, the buckets'
            // pages) and may write none themselves
            ops.clear();
            // (the number of buckets and the cut between the two deletions move from cycle to cycle, so that
            // now and then a deletion removes exactly the buckets of one leaf of a two-leaf directory: the root
            // then collapses onto a page the transaction never loaded)
            let c = t / 3;
            let n = 12 + c % 14;
            let cut = (n / 2 + (c / 14) % 5).saturating_sub(2).clamp(1, n - 1);
            let name = |i: usize| K { pre: format!("b{:02}", i).into_bytes(), fill: 0, post: vec![] };
            match t % 3 {
                0 => {
                    for i in 0..n {
                        ops.push(Op::TxGetOrCreate { k: name(i), how: How::Slice });
                        *tag += 1;
                        ops.push(Op::Put { h: i as H, k: key(t % 7), v: V { tag: *tag, len: 40 + (t % 5) * 100 }, how: How::Slice, vhow: How::Slice });
                    }
                }
                1 => {
                    for i in 0..cut {
                        ops.push(Op::TxDelete { k: name(i), how: How::Slice });
                    }
                }
                _ => {
                    for i in cut..n {
                        ops.push(Op::TxDelete { k: name(i), how: How::Slice });
                    }
                }
            }
        }
        "fixed-size-overwrite" | "after-reader-churn" => {
            for _ in 0..8 {
                let i = rng.usize(nkeys);
                put(&mut ops, 0, i, 100);
            }
        }
        "variable-size-overwrite" => {
            for _ in 0..8 {
                let i = rng.usize(nkeys);
                let len = *rng.pick(&[10usize, 200, ps as usize, 4 * ps as usize]);
                put(&mut ops, 0, i, len);
            }
        }
        "delete-reinsert" => {
            for _ in 0..8 {
                let i = rng.usize(nkeys);
                if rng.chance(1, 2) {
                    ops.push(Op::Delete { h: 0, k: key(i) });
                } else {
                    put(&mut ops, 0, i, 150);
                }
            }
        }
        "large-bucket-fill-drop" => {
            // a bucket of a few hundred pages is filled, dropped, refilled ...: the free list spans
            // several pages whenever the bucket is gone (also at the moment the file is closed)
            if t % 2 == 0 {
                ops.push(Op::GetOrCreate { h: 0, k: K::lit(b"large"), how: How::Slice });
                for j in 0..220 {
                    put(&mut ops, 1, j, ps as usize - 130 + (t % 3) * 8);
                }
            } else {
                ops.push(Op::DeleteB { h: 0, k: K::lit(b"large"), how: How::Slice });
                put(&mut ops, 0, t % nkeys, 60);
            }
        }
        "bucket-written-then-deleted" => {
            // the bucket the previous transaction created and filled is opened, written to (its pages are now
            // in-memory nodes of this transaction) and then deleted in the same transaction; another one is
            // created and filled for the next round.  A page that is both "materialised" and "to be freed" must
            // still be freed exactly once (seeded change C10-m skipped such pages as a double-free guard:
            // they are freed nowhere and the high-water mark climbs by the bucket's size every transaction)
            let cur = t % 4;
            let next = (t + 1) % 4;
            if t > 0 {
                ops.push(Op::GetOrCreate { h: 0, k: K::lit(format!("wd{}", cur).as_bytes()), how: How::Slice });
                for j in 0..3 {
                    put(&mut ops, 1, 7 * j + t % 5, 200);
                }
                ops.push(Op::Delete { h: 1, k: key(50 + t % 7) });
                ops.push(Op::DeleteB { h: 0, k: K::lit(format!("wd{}", cur).as_bytes()), how: How::Slice });
            }
            ops.push(Op::GetOrCreate { h: 0, k: K::lit(format!("wd{}", next).as_bytes()), how: How::Slice });
            let hn = if t > 0 { 2 } else { 1 };
            for j in 0..40 {
                put(&mut ops, hn, j + 20 * (t % 3), 180 + (t % 4) * 60);
            }
        }
        "bucket-create-delete-overflow" => {
            // sub-buckets holding multi-page values: deleting them must return the overflow pages too
            let del = t % 4;
            let fill = (t + 2) % 4;
            ops.push(Op::DeleteB {
                h: 0,
                k: K::lit(format!("big{}", del).as_bytes()),
                how: How::Slice,
            });
            ops.push(Op::GetOrCreate {
                h: 0,
                k: K::lit(format!("big{}", fill).as_bytes()),
                how: How::Slice,
            });
            for j in 0..4 {
                put(&mut ops, 1, j, 3 * ps as usize + 100 * (t % 3));
            }
        }
        _ => {
            // bucket create / delete: six sub-buckets, one deleted and one (re)filled per transaction
            let del = t % 6;
            let fill = (t + 3) % 6;
            ops.push(Op::DeleteB {
                h: 0,
                k: K::lit(format!("sub{}", del).as_bytes()),
                how: How::Slice,
            });
            ops.push(Op::GetOrCreate {
                h: 0,
                k: K::lit(format!("sub{}", fill).as_bytes()),
                how: How::Slice,
            });
            for j in 0..10 {
                put(&mut ops, 1, j + 100 * (t % 3), 120);
            }
        }
    }
    TxScript {
        ops,
        end: End::Commit,
        reopen: false,
    }
}

pub struct Outcome {
    pub hwm: Vec<u64>,
    pub max_live: u64,
    pub max_delta: u64,
    pub reuse: u64,
    pub violations: Vec<(String, String)>,
    pub inconclusive: Option<String>,
    pub fileck_runs: u64,
    pub multi_page_freelist: bool,
    pub churn_readers: u64,
    pub exactness_checks: u64,
    pub free_only_commits: u64,
    pub churn_end: usize,
}

struct State<'c> {
    run: Run<'c>,
    rng: Rng,
    tag: u64,
    committed: MBucket,
    prev_reach: std::collections::BTreeSet<u64>,
    prev_hwm: u64,
    prev_flrun: std::collections::BTreeSet<u64>,
    prev_len: u64,
    no_reader_open: bool,
    o: Outcome,
}

impl<'c> State<'c> {
    /// one transaction + independent measurement; Ok(false) = stop (violation recorded)
    fn step(&mut self, db: &DB, c: &Case, path: &std::path::Path, t: usize) -> Result<bool, String> {
        let ps = c.pagesize;
        // with no reader open, a writer that begins now must find EVERY page that the newest header does
        // not reach in its free set (no page is retained "just in case"), and nothing else
        if self.no_reader_open && self.prev_hwm > 4 && !self.prev_reach.is_empty() {
            let probe = db.tx(true).map_err(|e| e.to_string())?;
            let free: std::collections::BTreeSet<u64> = probe.verif_tx_state().free.iter().cloned().collect();
            drop(probe);
            let expected: std::collections::BTreeSet<u64> = (2..self.prev_hwm).filter(|p| !self.prev_reach.contains(p) && !self.prev_flrun.contains(p)).collect();
            self.o.exactness_checks += 1;
            if free != expected {
                let retained: Vec<u64> = expected.difference(&free).take(8).cloned().collect();
                let extra: Vec<u64> = free.difference(&expected).take(8).cloned().collect();
                self.o.violations.push((
                    if extra.is_empty() { "space:unreachable-pages-not-free-although-no-reader-is-open".to_string() } else { "space:free-set-contains-pages-that-are-in-use".to_string() },
                    format!("before transaction {} (no reader open): {} page(s) below the high-water mark {} are neither reachable nor allocatable (e.g. {:?}); {} allocatable page(s) are in use or beyond the mark (e.g. {:?})", t, expected.difference(&free).count(), self.prev_hwm, retained, free.difference(&expected).count(), extra),
                ));
                return Ok(false);
            }
        }
        let script = tx_script(&c.kind, &mut self.rng, t, &mut self.tag, ps);
        exec::exec_tx(&mut self.run, db, path, &script, t, &mut self.committed);
        if self.run.out.aborted {
            return Err(crate::report::workload_failure(self.run.out.violations.first(), &format!("transaction {} was cut short", t)));
        }
        let head = crate::snap::read_prefix(path, 2 * ps);
        let (m, _) = fileck::choose_meta(&head, ps);
        let m = m.ok_or("no valid header after commit")?;
        let img = crate::snap::read_prefix(path, m.num_pages * ps);
        let rep = fileck::check(&img, ps);
        let o = &mut self.o;
        o.fileck_runs += 1;
        if !rep.ok() {
            o.violations.push((
                format!("conservation:{}", exec::fileck_sig(&rep.errors[0])),
                format!("after transaction {}: {}", t, rep.errors[0]),
            ));
            return Ok(false);
        }
        if rep.freelist_run.len() > 1 {
            o.multi_page_freelist = true;
        }
        let live = rep.reachable.len() as u64 + rep.freelist_run.len() as u64;
        o.max_live = o.max_live.max(live);
        let newly: u64 = rep.reachable.difference(&self.prev_reach).count() as u64 + rep.freelist_run.len() as u64;
        if t > 0 {
            o.max_delta = o.max_delta.max(newly);
            if rep.reachable.difference(&self.prev_reach).next().is_none() && self.prev_reach.difference(&rep.reachable).next().is_some() {
                o.free_only_commits += 1; // pages left the tree and not one tree page was written
            }
        }
        let ph = self.prev_hwm;
        o.reuse += rep.reachable.difference(&self.prev_reach).filter(|p| **p < ph).count() as u64;
        self.prev_reach = rep.reachable.clone();
        self.prev_flrun = rep.freelist_run.clone();
        // the file itself: its length must stay within a fixed slack of what its pages (or the length it
        // was created with) need.  How and when an implementation extends the file - in which steps,
        // ahead of need or not - is its own business (an earlier version of this rule flagged any
        // extension made while the pages still fitted, which a harmless pre-extension policy would
        // trip); what the property rules out is a length that keeps growing while the pages do not.
        let len = std::fs::metadata(path).map(|md| md.len()).unwrap_or(0);
        if self.prev_len == 0 {
            self.prev_len = len; // the length the run started with
        } else if len > (m.num_pages * ps).max(self.prev_len) + (16 << 20) + ps {
            o.violations.push(("space:file-much-longer-than-its-pages".into(), format!("transaction {}: file length {} for {} pages of {} bytes (length at the start of the run {})", t, len, m.num_pages, ps, self.prev_len)));
            return Ok(false);
        }
        self.prev_hwm = m.num_pages;
        o.hwm.push(m.num_pages);
        Ok(true)
    }
}

pub fn run_case(c: &Case, path: &std::path::Path) -> Outcome {
    let ps = c.pagesize;
    let has_reader = c.reader.1 > c.reader.0;
    // with a reader on the same thread the file must not grow: pre-size generously
    let num_pages = if has_reader || !c.readers.is_empty() { 4 + 40 * c.txs.max(100) } else if c.handover { 4096 } else { 4 };
    let _ = std::fs::remove_file(path);
    let open = |p: &std::path::Path| -> Result<DB, String> {
        OpenOptions::new()
            .pagesize(ps)
            .num_pages(num_pages)
            .open(p)
            .map_err(|e| e.to_string())
    };
    let cfg = ExecCfg::default();
    let mut st = State {
        run: Run::new(&cfg, ps),
        rng: Rng::new(c.seed),
        tag: 0,
        committed: MBucket::default(),
        prev_reach: Default::default(),
        prev_hwm: 4,
        prev_flrun: Default::default(),
        prev_len: 0,
        no_reader_open: false,
        o: Outcome {
            hwm: vec![],
            max_live: 0,
            max_delta: 0,
            reuse: 0,
            violations: vec![],
            inconclusive: None,
            fileck_runs: 0,
            multi_page_freelist: false,
            churn_readers: 0,
            exactness_checks: 0,
            free_only_commits: 0,
            churn_end: 0,
        },
    };
    let r = util::catch(|| -> Result<(), String> {
        let mut db = open(path)?;
        let mut t = 0;
        if !c.readers.is_empty() {
            // several readers with their own open / close times; each is read in full when it closes
            crate::c03::forbid_grow(true);
            let mut open: Vec<(usize, jammdb::Tx, MBucket)> = Vec::new();
            while t < c.txs {
                for (ri, (a, _)) in c.readers.iter().enumerate() {
                    if *a == t {
                        open.push((ri, db.tx(false).map_err(|e| e.to_string())?, st.committed.clone()));
                    }
                }
                let closing: Vec<usize> = c.readers.iter().enumerate().filter(|(_, (_, cl))| *cl == t).map(|(ri, _)| ri).collect();
                for ri in closing {
                    if let Some(pos) = open.iter().position(|(i, _, _)| *i == ri) {
                        let (_, rtx, snap) = open.remove(pos);
                        if let Some(d) = exec::verify_tx_against(&rtx, &snap, false) {
                            st.o.violations.push((
                                format!("reader-view-changed:{}", exec::classify_diff(&d)),
                                format!("reader #{} held from tx {} to {} (with {} other readers open): {}", ri, c.readers[ri].0, c.readers[ri].1, open.len(), d),
                            ));
                        }
                        drop(rtx);
                    }
                }
                if open.is_empty() {
                    crate::c03::forbid_grow(false);
                } else {
                    crate::c03::forbid_grow(true);
                }
                if !st.step(&db, c, path, t)? {
                    break;
                }
                t += 1;
            }
            drop(open);
            crate::c03::forbid_grow(false);
            return Ok(());
        }
        if c.handover {
            // a reader is open at every writer begin, but never for longer than one transaction
            crate::c03::forbid_grow(true);
            let mut cur = Some(db.tx(false).map_err(|e| e.to_string())?);
            while t < c.txs {
                if !st.step(&db, c, path, t)? {
                    break;
                }
                t += 1;
                let next = db.tx(false).map_err(|e| e.to_string())?;
                drop(cur.take());
                cur = Some(next);
            }
            drop(cur);
            crate::c03::forbid_grow(false);
            return Ok(());
        }
        if c.kind == "after-reader-churn" {
            // eight threads open and close short readers on clones of the handle, all joined before the
            // first write: afterwards no reader is open and none may still be registered
            let stop = std::sync::Arc::new(std::sync::atomic::AtomicBool::new(false));
            let mut hs = Vec::new();
            for _ in 0..8 {
                let d = db.clone();
                let stop = stop.clone();
                hs.push(std::thread::spawn(move || {
                    let mut n = 0u64;
                    while !stop.load(std::sync::atomic::Ordering::Relaxed) {
                        if let Ok(tx) = d.tx(false) {
                            drop(tx);
                            n += 1;
                        }
                    }
                    n
                }));
            }
            // the writer keeps committing while they do (readers of different snapshots come and go)
            let t0 = std::time::Instant::now();
            let mut early_stop = false;
            while t0.elapsed().as_millis() < 800 && t < c.txs / 2 {
                if !st.step(&db, c, path, t)? {
                    early_stop = true;
                    break;
                }
                t += 1;
            }
            stop.store(true, std::sync::atomic::Ordering::Relaxed);
            let mut total = 0;
            for h in hs {
                match h.join() {
                    Ok(n) => total += n,
                    Err(_) => st.o.violations.push(("space:reader-thread-panicked".into(), "a thread that only opens and closes read-only transactions panicked".into())),
                }
            }
            st.o.churn_readers = total;
            st.o.churn_end = t;
            let left = db.verif_state().readers;
            if !left.is_empty() {
                st.o.violations.push(("space:reader-still-registered-after-all-readers-closed".into(), format!("all reader threads have been joined but the list of open readers is {:?}", left)));
                early_stop = true;
            }
            if early_stop || !st.o.violations.is_empty() {
                return Ok(());
            }
        }
        while t < c.txs {
            if has_reader && t == c.reader.0 {
                let rtx = db.tx(false).map_err(|e| e.to_string())?;
                let snap = st.committed.clone();
                crate::c03::forbid_grow(true);
                while t < c.reader.1.min(c.txs) {
                    if !st.step(&db, c, path, t)? {
                        crate::c03::forbid_grow(false);
                        return Ok(());
                    }
                    t += 1;
                }
                // the pinned snapshot must still be intact when the reader closes
                if let Some(d) = exec::verify_tx_against(&rtx, &snap, false) {
                    st.o.violations.push((
                        format!("reader-view-changed:{}", exec::classify_diff(&d)),
                        format!("reader held from tx {} to {}: {}", c.reader.0, c.reader.1, d),
                    ));
                }
                drop(rtx);
                crate::c03::forbid_grow(false);
                continue;
            }
            st.no_reader_open = true;
            let go = st.step(&db, c, path, t)?;
            st.no_reader_open = false;
            if !go {
                return Ok(());
            }
            t += 1;
            if c.reopen_every > 0 && t % c.reopen_every == 0 {
                drop(db);
                db = open(path)?;
            }
        }
        Ok(())
    });
    crate::c03::forbid_grow(false);
    let mut o = st.o;
    match r {
        Ok(Ok(())) => {}
        Ok(Err(e)) => o.inconclusive = Some(e),
        Err(p) if p.msg.contains(crate::c03::GROW_MSG) => {
            // the run had to stop, but the series measured so far is still evidence: judge it
            judge(c, &mut o);
            if o.violations.is_empty() {
                o.inconclusive = Some("pre-sized file was too small for the pinned stretch".into())
            }
        }
        Err(p) => o.violations.push((
            format!("space:{}", util::panic_signature(&p)),
            format!("panic at {}:{}: {}", p.file, p.line, p.msg),
        )),
    }
    if o.inconclusive.is_none() && o.violations.is_empty() {
        judge(c, &mut o);
    }
    o
}

/// The space bounds of DESIGN.md §3 C10.
fn judge(c: &Case, o: &mut Outcome) {
    let n = o.hwm.len();
    if n < 40 {
        return;
    }
    let l = o.max_live;
    let d = o.max_delta.max(1);
    let tight = (c.kind == "fixed-size-overwrite" || c.kind == "delete-reinsert" || c.kind == "after-reader-churn") && !c.handover;
    // hand-over: the pages freed by the previous transaction stay pending one transaction longer
    let bound = if tight { l + 2 * d + 8 } else { 4 * (l + d) + 16 };
    let mut c = c.clone();
    if o.churn_end > 0 {
        // while the reader threads were running, pages were legitimately pinned: judged like a reader held
        // from the start to the moment the threads were joined
        c.reader = (0, o.churn_end);
    }
    if !c.readers.is_empty() {
        // judged like one reader held from the first open to the last close
        let a = c.readers.iter().map(|r| r.0).min().unwrap();
        let z = c.readers.iter().map(|r| r.1).max().unwrap();
        c.reader = (a, z);
    }
    let c = &c;
    let has_reader = c.reader.1 > c.reader.0;
    let warm = n / 10;
    for t in warm..n {
        let h = o.hwm[t];
        let in_pin = has_reader && t >= c.reader.0 && t < c.reader.1 + 2;
        if in_pin {
            // while a reader pins a snapshot each transaction may add at most D pages
            let base = o.hwm[c.reader.0.saturating_sub(1).max(0)].max(bound);
            let allowed = base + ((t - c.reader.0 + 1) as u64) * d + 8;
            if h > allowed {
                o.violations.push((
                    "space:growth-while-pinned-exceeds-one-delta-per-tx".into(),
                    format!("tx {}: high-water mark {} > {} allowed while a reader is open (L={}, D={})", t, h, allowed, l, d),
                ));
                return;
            }
            continue;
        }
        if has_reader && t >= c.reader.1 + 2 {
            // after the reader closed, reuse must resume: no growth beyond hwm(c+2) + D
            let base = o.hwm[(c.reader.1 + 2).min(n - 1)];
            if h > base + d {
                o.violations.push((
                    "space:no-reuse-after-reader-closed".into(),
                    format!("tx {}: high-water mark {} > hwm(close+2)={} + D={} after the reader closed", t, h, base, d),
                ));
                return;
            }
            continue;
        }
        if h > bound {
            o.violations.push((
                format!("space:{}-bound-exceeded", if tight { "tight" } else { "loose" }),
                format!("tx {}: high-water mark {} pages > bound {} (max live pages L={}, max pages written by one commit D={})", t, h, bound, l, d),
            ));
            return;
        }
    }
    if !has_reader {
        let half = o.hwm[n / 2];
        let last = o.hwm[n - 1];
        let allowed = if tight { half + d } else { half + half / 10 + d };
        if last > allowed {
            o.violations.push((
                "space:second-half-growth".into(),
                format!("high-water mark grew from {} (tx {}) to {} (tx {}); allowed {}", half, n / 2, last, n - 1, allowed),
            ));
        }
    }
}

pub fn cases(ctx: &Ctx) -> Vec<Case> {
    let t = ctx.scale(if ctx.thorough() { 5000 } else { 900 }) as usize;
    let mut v = Vec::new();
    let mut i = 0u64;
    for kind in ["fixed-size-overwrite", "delete-reinsert", "bucket-create-delete-overflow"] {
        i += 1;
        v.push(Case { kind: kind.to_string(), pagesize: 1024, txs: t, reopen_every: 0, reader: (0, 0), handover: kind != "bucket-create-delete-overflow", readers: vec![], seed: ctx.seed.wrapping_mul(977).wrapping_add(i) });
    }
    // commits that only free pages, with a reopen after every (second, third) commit
    for re in [1usize, 2, 3] {
        i += 1;
        v.push(Case { kind: "top-level-bucket-cycle".to_string(), pagesize: 1024, txs: if re == 1 { t.clamp(210, 900) } else { (t / 2).clamp(90, 600) }, reopen_every: re, reader: (0, 0), handover: false, readers: vec![], seed: ctx.seed.wrapping_mul(977).wrapping_add(i) });
    }
    i += 1;
    v.push(Case { kind: "bucket-create-delete-overflow".to_string(), pagesize: 1024, txs: t, reopen_every: 25, reader: (0, 0), handover: false, readers: vec![], seed: ctx.seed.wrapping_mul(977).wrapping_add(i) });
    for kind in ["fixed-size-overwrite", "variable-size-overwrite", "delete-reinsert", "bucket-create-delete"] {
        for reopen in [0usize, 25] {
            for reader in [false, true] {
                i += 1;
                v.push(Case {
                    handover: false,
                    readers: vec![],
                    kind: kind.to_string(),
                    pagesize: 1024,
                    txs: t,
                    reopen_every: if reader { 0 } else { reopen },
                    reader: if reader {
                        if reopen == 0 { (t / 4, t / 2) } else { (t / 10, t / 10 + t / 8) }
                    } else {
                        (0, 0)
                    },
                    seed: ctx.seed.wrapping_mul(1000).wrapping_add(i),
                });
            }
        }
    }
    // a long life: more transactions than fit into 16 bits (a transaction id, a generation of pending pages
    // or a counter that is narrowed somewhere wraps here; none of the other runs gets beyond a few thousand)
    i += 1;
    v.push(Case { kind: "fixed-size-overwrite".to_string(), pagesize: 1024, txs: if ctx.thorough() { 270_000 } else { 67_000 }, reopen_every: 16_500, reader: (0, 0), handover: false, readers: vec![], seed: ctx.seed.wrapping_mul(733).wrapping_add(i) });
    // a bucket that is written to and deleted in one transaction, with and without reopen
    for reopen in [0usize, 7] {
        i += 1;
        v.push(Case { kind: "bucket-written-then-deleted".to_string(), pagesize: 1024, txs: (t / 2).clamp(150, 1500), reopen_every: reopen, reader: (0, 0), handover: false, readers: vec![], seed: ctx.seed.wrapping_mul(733).wrapping_add(i) });
    }
    // multi-page free lists, also at the moment the file is closed and reopened
    for reopen in [0usize, 1, 3, 4] {
        i += 1;
        v.push(Case { kind: "large-bucket-fill-drop".to_string(), pagesize: 1024, txs: (t / 3).clamp(60, 400), reopen_every: reopen, reader: (0, 0), handover: false, readers: vec![], seed: ctx.seed.wrapping_mul(733).wrapping_add(i) });
    }
    // a large, fragmented free set (multi-page requests must still find their run further up)
    i += 1;
    v.push(Case { kind: "fragmented-free-set".to_string(), pagesize: 1024, txs: (t / 2).clamp(120, 600), reopen_every: 40, reader: (0, 0), handover: false, readers: vec![], seed: ctx.seed.wrapping_mul(733).wrapping_add(i) });
    // many short readers on eight threads first, then an ordinary overwrite run
    for _ in 0..2 {
        i += 1;
        v.push(Case { kind: "after-reader-churn".to_string(), pagesize: 1024, txs: t, reopen_every: 0, reader: (0, 0), handover: false, readers: vec![], seed: ctx.seed.wrapping_mul(733).wrapping_add(i) });
    }
    // several readers of different ages closing in every order; and two readers of the same snapshot
    let a = t / 10;
    let orders: [[usize; 3]; 6] = [[0, 1, 2], [0, 2, 1], [1, 0, 2], [1, 2, 0], [2, 0, 1], [2, 1, 0]];
    for (oi, o) in orders.iter().enumerate() {
        let mut rs = vec![(a, 0usize), (a + 2, 0), (a + 5, 0)];
        for (k, r) in o.iter().enumerate() {
            rs[*r].1 = a + 9 + 4 * k;
        }
        i += 1;
        v.push(Case { kind: if oi % 2 == 0 { "fixed-size-overwrite" } else { "delete-reinsert" }.to_string(), pagesize: 1024, txs: t, reopen_every: 0, reader: (0, 0), handover: false, readers: rs, seed: ctx.seed.wrapping_mul(313).wrapping_add(i) });
    }
    for first_closes in [0usize, 1] {
        let mut rs = vec![(a, a + 40), (a, a + 40)];
        rs[first_closes].1 = a + 3;
        i += 1;
        v.push(Case { kind: "fixed-size-overwrite".to_string(), pagesize: 1024, txs: t, reopen_every: 0, reader: (0, 0), handover: false, readers: rs, seed: ctx.seed.wrapping_mul(313).wrapping_add(i) });
    }
    if ctx.thorough() {
        // the same at page size 4096
        let more: Vec<Case> = v
            .iter()
            .filter(|c| c.reader == (0, 0))
            .filter(|c| !c.handover && c.readers.is_empty())
            .map(|c| Case { pagesize: 4096, txs: c.txs / 2, ..c.clone() })
            .collect();
        v.extend(more);
    }
    v
}

pub fn run(ctx: &Ctx) -> Shard {
    let mut shard = Shard::new("C10");
    let scratch = Scratch::new("C10");
    crate::c03::install_no_grow_handler();
    let list: Vec<Case> = if let Some(rp) = &ctx.replay {
        let doc: serde_json::Value = serde_json::from_slice(&std::fs::read(rp).expect("read replay")).expect("parse");
        vec![serde_json::from_value(doc["case"]["c10_case"].clone()).expect("case")]
    } else {
        cases(ctx)
            .into_iter()
            .enumerate()
            .filter(|(i, _)| (*i as u64) % ctx.nshards == ctx.shard)
            .map(|(_, c)| c)
            .collect()
    };
    for c in &list {
        let path = scratch.fresh("c10");
        let o = run_case(c, &path);
        let _ = std::fs::remove_file(&path);
        shard.evaluations += 1;
        let hh = util::fnv64(serde_json::to_string(c).unwrap().as_bytes());
        shard.distinct.insert(hh);
        if o.reuse > 0 && o.hwm.len() >= 40 {
            shard.nontrivial.insert(hh);
        }
        for (sig, detail) in &o.violations {
            let step = (o.hwm.len() / 60).max(1);
            let series: Vec<u64> = o.hwm.iter().step_by(step).cloned().collect();
            let replay = serde_json::json!({"kind": "c10", "c10_case": c, "hwm_series_downsampled": series, "L": o.max_live, "D": o.max_delta});
            shard.violation(ctx, sig, &format!("[{} reopen_every={} reader={:?}] {}", c.kind, c.reopen_every, c.reader, detail), &replay);
        }
        if let Some(e) = &o.inconclusive {
            shard.inconclusive_or_workload(ctx, &format!("[{}]", c.kind), e, &serde_json::json!({"kind": "c10", "c10_case": c}));
        }
        let step = (o.hwm.len() / 24).max(1);
        let series: Vec<u64> = o.hwm.iter().step_by(step).cloned().collect();
        shard.set(
            "runs(kind,reopen,reader,L,D,first->last hwm)",
            format!(
                "{}{} ps={} reopen_every={} reader={:?} txs={} L={} D={} hwm {}..{} reused_pages={}",
                c.kind, if c.handover { " +reader-hand-over".to_string() } else if !c.readers.is_empty() { format!(" +readers{:?}", c.readers) } else { String::new() }, c.pagesize, c.reopen_every, c.reader, o.hwm.len(), o.max_live, o.max_delta,
                o.hwm.first().cloned().unwrap_or(0), o.hwm.last().cloned().unwrap_or(0), o.reuse
            ),
        );
        shard.sample(serde_json::json!({"workload": c.kind, "pagesize": c.pagesize, "reopen_every": c.reopen_every, "reader_held": c.reader,
            "transactions": o.hwm.len(), "max_live_pages_L": o.max_live, "max_pages_per_commit_D": o.max_delta, "hwm_series_downsampled": series}));
        shard.count("transactions", o.hwm.len() as u64);
        if o.hwm.len() > 65_536 {
            shard.count("runs_of_more_than_65536_transactions_on_one_file", 1);
        }
        shard.count("fileck_conservation_checks", o.fileck_runs);
        shard.count("writer_begins_whose_free_set_was_compared_with_the_unreachable_pages", o.exactness_checks);
        shard.count("commits_that_freed_pages_without_writing_a_tree_page", o.free_only_commits);
        shard.count("pages_allocated_below_previous_hwm(reuse)", o.reuse);
        shard.count("max_hwm", 0);
        if o.churn_readers > 0 {
            shard.count("short_readers_opened_and_closed_on_8_threads_before_a_run", o.churn_readers);
        }
        if o.multi_page_freelist {
            shard.count("runs_with_a_multi_page_free_list", 1);
        }
        if c.reopen_every > 0 {
            shard.count("runs_with_periodic_reopen", 1);
        }
        if c.reader.1 > c.reader.0 {
            shard.count("runs_with_reader_held", 1);
        }
        if c.handover {
            shard.count("runs_with_reader_hand_over", 1);
        }
        if !c.readers.is_empty() {
            shard.count("runs_with_several_readers", 1);
        }
    }
    shard
}
