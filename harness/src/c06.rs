//! C06 – uncommitted and failed work leaves no trace.
//!  (a) histories with many (large) rolled-back transactions: file bytes and the
//!      shared in-memory bookkeeping are identical before / after, the next
//!      transaction sees the prior committed state;
//!  (b) twin runs: the same history with and without its rolled-back
//!      transactions must produce the same contents and the same number of
//!      reachable pages after every commit;
//!  (c) after every call that returns an error the transaction's view is unchanged;
//!  (d) every mutating call through a read-only transaction fails with
//!      ReadOnlyTx and neither it nor opening the database changes the file.
use crate::exec::{self, Class, ExecCfg};
use crate::gen::{self, GenCfg};
use crate::model::{ErrKind, MBucket};
use crate::ops::*;
use crate::report::{Ctx, Shard};
use crate::util::{self, show, Rng, Scratch};
use jammdb::Bucket;

fn cfg_a() -> ExecCfg {
    ExecCfg {
        verify_after_commit: true,
        rollback_trace: true,
        verify_after_error: true,
        fileck_each_commit: true,
        trace_commits: true,
        ..Default::default()
    }
}

fn reports(c: Class) -> bool {
    matches!(c, Class::RollbackTrace | Class::ErrChanged)
}

fn gen_cfg(ps: u64, profile: u8, big: bool) -> GenCfg {
    let mut g = GenCfg::default_for(ps, profile);
    g.p_rollback = 40;
    g.p_reopen = 8;
    g.n_txs = (4, 10);
    g.ops_per_tx = if big { (60, 300) } else { (5, 50) };
    g
}

/// The mutators tried through a read-only transaction on bucket `b`.
fn ro_mutators_on_bucket(b: &Bucket, mb: &MBucket, probes: &[Vec<u8>], out: &mut Vec<(String, String)>, n: &mut u64) {
    let _ = mb;
    for k in probes {
        let checks: Vec<(&str, Result<(), jammdb::Error>)> = vec![
            ("put", b.put(k.clone(), b"zzz".to_vec()).map(|_| ())),
            ("delete", b.delete(k.as_slice()).map(|_| ())),
            ("create_bucket", b.create_bucket(k.clone()).map(|_| ())),
            ("get_or_create_bucket", b.get_or_create_bucket(k.clone()).map(|_| ())),
            ("delete_bucket", b.delete_bucket(k.clone())),
        ];
        for (name, r) in checks {
            *n += 1;
            match r {
                Err(e) if ErrKind::of(&e) == ErrKind::ReadOnlyTx => {}
                other => out.push((
                    format!("read-only:{}:not-refused", name),
                    format!(
                        "{}({}) through a read-only transaction returned {:?} instead of the read-only error",
                        name,
                        show(k),
                        other.as_ref().map_err(|e| e.to_string())
                    ),
                )),
            }
        }
    }
}

static DAMAGED_OPENS: std::sync::atomic::AtomicU64 = std::sync::atomic::AtomicU64::new(0);
static LEGACY_OPENS: std::sync::atomic::AtomicU64 = std::sync::atomic::AtomicU64::new(0);

/// (d): build the committed state of `h`, then hammer a read-only transaction.
fn ro_case(h: &History, path: &std::path::Path, calls: &mut u64) -> Result<Vec<(String, String)>, String> {
    let mut viol = Vec::new();
    let _ = std::fs::remove_file(path);
    let out = exec::run_history(h, &ExecCfg::default(), path);
    if out.aborted {
        return Err(crate::report::workload_failure(out.violations.first(), "could not build the state"));
    }
    // model of the committed state
    let mut model = MBucket::default();
    replay_model(h, &mut model);
    let before = util::fingerprint(&std::fs::read(path).map_err(|e| e.to_string())?);
    // opening (and closing) an existing database must not change the file
    for k in 0..4u64 {
        // with the options it was created with, and with other initial page counts (no effect on an existing file)
        let db = exec::reopen_db(path, h, k).map_err(|e| e.to_string())?;
        {
            let tx = db.tx(false).map_err(|e| e.to_string())?;
            if let Some(d) = exec::verify_tx_against(&tx, &model, false) {
                viol.push((format!("open:contents-changed:{}", exec::classify_diff(&d)), format!("after reopening an existing database (option variant {}): {}", k, d)));
            }
        }
        drop(db);
        let after_open = util::fingerprint(&std::fs::read(path).map_err(|e| e.to_string())?);
        if after_open != before {
            viol.push((
                "open:file-bytes-changed".into(),
                format!("opening and closing an existing database (option variant {}) changed the file's bytes", k),
            ));
            break;
        }
    }
    // ... also when the existing database is not in perfect shape: one of its two header pages unusable, as a
    // torn header write leaves it (seeded change C06-m "repaired" the bad slot from the good one while opening).
    // What such a file must *show* is C12's business; here only the bytes count: open, read, close - unchanged.
    {
        let orig = std::fs::read(path).map_err(|e| e.to_string())?;
        let ps = h.pagesize as usize;
        let dmg_path = path.with_extension("dmg");
        if orig.len() >= 2 * ps {
            for slot in 0..2usize {
                for kind in 0..3usize {
                    let mut img = orig.clone();
                    let base = slot * ps;
                    let what = match kind {
                        0 => {
                            img[base + 96] ^= 0x5a; // a byte of the checksum
                            "a damaged checksum"
                        }
                        1 => {
                            for b in &mut img[base..base + 512.min(ps)] {
                                *b = 0;
                            }
                            "a zeroed first sector"
                        }
                        _ => {
                            img[base + 32 + 56] ^= 0x01; // a byte of the transaction id
                            "a changed transaction id"
                        }
                    };
                    std::fs::write(&dmg_path, &img).map_err(|e| e.to_string())?;
                    let before_d = util::fingerprint(&img);
                    let _ = util::catch(|| {
                        if let Ok(db) = exec::reopen_db(&dmg_path, h, 0) {
                            if let Ok(tx) = db.tx(false) {
                                let _ = exec::dump_tx(&tx);
                            }
                            let _ = db.check();
                        }
                    });
                    DAMAGED_OPENS.fetch_add(1, std::sync::atomic::Ordering::Relaxed);
                    let after_d = util::fingerprint(&std::fs::read(&dmg_path).map_err(|e| e.to_string())?);
                    if after_d != before_d {
                        viol.push((
                            "open:file-bytes-changed:one-header-unusable".into(),
                            format!("opening, reading and closing a database whose header page {} has {} changed the file's bytes", slot, what),
                        ));
                    }
                }
            }
        }
        // ... and when the file is healthy but OLD: both header pages in the layout of release 0.10 and earlier
        // (SHA3 checksum), which the current code still reads.  Reading it is no licence to rewrite it
        // (seeded change C06-p converted the headers to the current layout while opening).
        if orig.len() >= 2 * ps {
            let legacy = crate::c15::to_legacy(&orig, h.pagesize);
            if legacy != orig {
                std::fs::write(&dmg_path, &legacy).map_err(|e| e.to_string())?;
                let before_l = util::fingerprint(&legacy);
                let r = util::catch(|| -> Result<bool, String> {
                    let db = exec::reopen_db(&dmg_path, h, 0).map_err(|e| e.to_string())?;
                    let same = {
                        let tx = db.tx(false).map_err(|e| e.to_string())?;
                        exec::verify_tx_against(&tx, &model, false).is_none()
                    };
                    let _ = db.check();
                    // a write transaction that is dropped does not count as a change either
                    if let Ok(tx) = db.tx(true) {
                        if let Ok(b) = tx.get_or_create_bucket("c06-legacy-probe") {
                            let _ = b.put("k", "v");
                        }
                    }
                    Ok(same)
                });
                LEGACY_OPENS.fetch_add(1, std::sync::atomic::Ordering::Relaxed);
                let after_l = util::fingerprint(&std::fs::read(&dmg_path).map_err(|e| e.to_string())?);
                match r {
                    Ok(Ok(true)) | Ok(Ok(false)) | Ok(Err(_)) | Err(_) if after_l != before_l => viol.push((
                        "open:file-bytes-changed:legacy-headers".into(),
                        "opening, reading (and dropping a write transaction on) a database whose header pages are in the 0.10 layout changed the file's bytes".into(),
                    )),
                    _ => {}
                }
            }
        }
        let _ = std::fs::remove_file(&dmg_path);
    }
    let db = exec::open_db(path, h).map_err(|e| e.to_string())?;
    let st0 = db.verif_state();
    let r = util::catch(|| {
        let tx = db.tx(false).expect("read-only tx");
        // root level
        for name in [b"a".to_vec(), b"zz-absent".to_vec(), b"m".to_vec(), vec![]] {
            let checks: Vec<(&str, Result<(), jammdb::Error>)> = vec![
                ("tx.create_bucket", tx.create_bucket(name.clone()).map(|_| ())),
                ("tx.get_or_create_bucket", tx.get_or_create_bucket(name.clone()).map(|_| ())),
                ("tx.delete_bucket", tx.delete_bucket(name.clone())),
            ];
            for (n, r) in checks {
                *calls += 1;
                match r {
                    Err(e) if ErrKind::of(&e) == ErrKind::ReadOnlyTx => {}
                    other => viol.push((
                        format!("read-only:{}:not-refused", n),
                        format!("{} through a read-only transaction returned {:?}", n, other.map_err(|e| e.to_string())),
                    )),
                }
            }
        }
        for path in model.bucket_paths() {
            if path.is_empty() {
                continue;
            }
            let mb = model.at(&path).unwrap();
            let mut b = tx.get_bucket(path[0].clone()).expect("bucket listed by the model");
            for p in &path[1..] {
                b = b.get_bucket(p.clone()).expect("bucket listed by the model");
            }
            let mut probes: Vec<Vec<u8>> = mb.entries.keys().take(6).cloned().collect();
            probes.push(b"zz-absent".to_vec());
            probes.push(vec![]);
            ro_mutators_on_bucket(&b, mb, &probes, &mut viol, calls);
        }
        // handles handed out by the iterators (not looked up by name) must be read-only as well
        let root_handles: Vec<(Vec<u8>, Bucket)> = tx.buckets().map(|(n, b)| (n.name().to_vec(), b)).collect();
        for (name, b) in &root_handles {
            if let Some(mb) = model.at(&[name.clone()]) {
                let mut probes: Vec<Vec<u8>> = mb.entries.keys().take(3).cloned().collect();
                probes.push(b"zz-absent".to_vec());
                ro_mutators_on_bucket(b, mb, &probes, &mut viol, calls);
                let subs: Vec<(Vec<u8>, Bucket)> = b.buckets().map(|(n, sb)| (n.name().to_vec(), sb)).collect();
                for (sn, sb) in &subs {
                    if let Some(smb) = model.at(&[name.clone(), sn.clone()]) {
                        let mut probes: Vec<Vec<u8>> = smb.entries.keys().take(2).cloned().collect();
                        probes.push(b"zz-absent".to_vec());
                        ro_mutators_on_bucket(sb, smb, &probes, &mut viol, calls);
                    }
                }
                // and through IntoIterator / cursor().to_buckets()
                use jammdb::ToBuckets;
                for (_n, cb) in b.cursor().to_buckets() {
                    ro_mutators_on_bucket(&cb, mb, &[b"zz-absent".to_vec()], &mut viol, calls);
                }
                // ... through ranges (unbounded and bounded) and through a seeked cursor
                for (_n, rb) in b.range::<std::ops::RangeFull>(..).to_buckets() {
                    ro_mutators_on_bucket(&rb, mb, &[b"zz-absent".to_vec()], &mut viol, calls);
                }
                let lo: &[u8] = b"";
                for (_n, rb) in b.range(lo..).to_buckets() {
                    ro_mutators_on_bucket(&rb, mb, &[b"zz-absent".to_vec()], &mut viol, calls);
                }
                let mut sc = b.cursor();
                sc.seek(lo);
                for (_n, rb) in sc.to_buckets() {
                    ro_mutators_on_bucket(&rb, mb, &[b"zz-absent".to_vec()], &mut viol, calls);
                }
                // ... and `for entry in bucket` on a second handle to the same bucket, opened by a listed name
                if let Ok(b2) = tx.get_bucket(name.clone()) {
                    for d in b2 {
                        if let jammdb::Data::Bucket(bn) = d {
                            if let Ok(nb) = b.get_bucket(&bn) {
                                ro_mutators_on_bucket(&nb, mb, &[b"zz-absent".to_vec()], &mut viol, calls);
                            }
                        }
                    }
                }
            }
        }
        drop(root_handles);
        // reads through the same transaction still see the committed state
        if let Some(d) = exec::verify_tx_against(&tx, &model, true) {
            viol.push((
                format!("read-only:view-changed:{}", exec::classify_diff(&d)),
                format!("after the refused calls the read-only transaction sees: {}", d),
            ));
        }
        *calls += 1;
        match tx.commit() {
            Err(e) if ErrKind::of(&e) == ErrKind::ReadOnlyTx => {}
            other => viol.push((
                "read-only:commit:not-refused".into(),
                format!("commit of a read-only transaction returned {:?}", other.map_err(|e| e.to_string())),
            )),
        }
    });
    if let Err(p) = r {
        viol.push((
            format!("read-only:{}", util::panic_signature(&p)),
            format!("panic at {}:{}: {}", p.file, p.line, p.msg),
        ));
    }
    let st1 = db.verif_state();
    if st0 != st1 {
        viol.push((
            "read-only:shared-state-changed".into(),
            format!("shared bookkeeping changed across a read-only transaction: {:?} -> {:?}", st0, st1),
        ));
    }
    drop(db);
    let after = util::fingerprint(&std::fs::read(path).map_err(|e| e.to_string())?);
    if after != before {
        viol.push((
            "read-only:file-bytes-changed".into(),
            "the file's bytes changed across the use of a read-only transaction".into(),
        ));
    }
    Ok(viol)
}

/// (e) a commit that fails with an I/O error and does not reach the file leaves no trace in the
/// handle's shared bookkeeping, and later transactions see and extend the prior committed state.
/// Needs the I/O shim (fault mode); returns the number of injected failures.
fn failed_commit_case(h: &History, path: &std::path::Path, vio: &crate::vio::Vio, viol: &mut Vec<(String, String)>) -> Result<u64, String> {
    use crate::exec::Run;
    let _ = std::fs::remove_file(path);
    // build everything but the last committing transaction
    let last = match h.txs.iter().rposition(|t| t.end == End::Commit && !t.ops.iter().any(|o| matches!(o, Op::Misuse { .. }))) {
        Some(i) if i > 0 => i,
        _ => return Ok(0),
    };
    let mut base = h.clone();
    base.txs.truncate(last);
    for t in base.txs.iter_mut() {
        t.reopen = false;
    }
    let out = exec::run_history(&base, &ExecCfg::default(), path);
    if out.aborted {
        return Err(crate::report::workload_failure(out.violations.first(), "could not build the state"));
    }
    let image = std::fs::read(path).map_err(|e| e.to_string())?;
    let mut pre = MBucket::default();
    replay_model(&base, &mut pre);
    let target = &h.txs[last];
    // count the commit's writes
    let cfg = ExecCfg::default();
    let (n_writes, n_mmaps) = {
        let db = exec::open_db(path, h).map_err(|e| e.to_string())?;
        let mut run = Run::new(&cfg, h.pagesize);
        let mut m = pre.clone();
        vio.reset();
        exec::exec_tx(&mut run, &db, path, target, 0, &mut m);
        let s = vio.stats();
        if run.out.aborted {
            return Err("target transaction disagreed with the model".into());
        }
        (s.writes, s.mmaps)
    };
    let mut injected = 0;
    // fail the first, a middle and the last data write, and the header write, with nothing written
    let mut idxs: Vec<i64> = vec![0, (n_writes as i64) / 2, n_writes as i64 - 2, n_writes as i64 - 1];
    idxs.sort();
    idxs.dedup();
    // ... and, when the commit extends the file, the mapping of the extended file (the extension itself has
    // happened by then, the header has not been written: prior state, nothing of the transaction visible)
    let mut faults: Vec<(i32, i64, i32, String)> = idxs.into_iter().filter(|i| *i >= 0).map(|i| (crate::vio::CLASS_WRITE, i, libc::EIO, format!("write #{} (nothing written)", i))).collect();
    for i in 0..n_mmaps as i64 {
        faults.push((crate::vio::CLASS_MMAP, i, libc::ENOMEM, format!("mmap #{} (after the file was extended)", i)));
    }
    for (class, nth, errno, what) in faults {
        let nth_s = what.clone();
        std::fs::write(path, &image).map_err(|e| e.to_string())?;
        let db = exec::open_db(path, h).map_err(|e| e.to_string())?;
        let before = db.verif_state();
        let mut run = Run::new(&cfg, h.pagesize);
        run.tolerate_commit_err = true;
        let mut m = pre.clone();
        vio.reset();
        vio.arm(class, nth, errno, crate::vio::KIND_FAIL);
        let r = util::catch(|| exec::exec_tx(&mut run, &db, path, target, 0, &mut m));
        let fired = vio.stats().fired > 0;
        vio.reset();
        if r.is_err() || run.out.aborted || !fired || run.last_commit_err.is_none() {
            continue; // panics and half-applied states are C11's business
        }
        injected += 1;
        // the write failed with nothing written, so the header never reached the file: prior state
        let tx = db.tx(false).map_err(|e| e.to_string())?;
        if let Some(d) = exec::verify_tx_against(&tx, &pre, false) {
            viol.push((format!("failed-commit:state-changed:{}", exec::classify_diff(&d)), format!("after a commit that failed at {} the handle shows: {}", nth_s, d)));
            continue;
        }
        drop(tx);
        let mut after = db.verif_state();
        // the file may have been extended (and remapped) before the write failed: that is not a logical trace
        after.map_len = before.map_len;
        if after != before {
            viol.push((
                "failed-commit:shared-state-changed".into(),
                format!("a commit that failed at {} (prior state still current) changed the handle's shared bookkeeping: {:?} -> {:?}", nth_s, before, after),
            ));
            continue;
        }
        // and later commits behave as if the failed one had never existed
        let strict = ExecCfg { verify_after_commit: true, fileck_each_commit: true, ..Default::default() };
        let mut run2 = Run::new(&strict, h.pagesize);
        let mut m2 = pre.clone();
        let r = util::catch(|| {
            exec::exec_tx(&mut run2, &db, path, target, 1, &mut m2);
        });
        // everything the retried transaction wrote must be readable through the same handle
        let r = r.and_then(|_| {
            util::catch(|| {
                if let Ok(tx) = db.tx(false) {
                    if let Some(d) = exec::verify_tx_against(&tx, &m2, true) {
                        run2.out.violations.push(exec::Violation { sig: format!("read-back:{}", exec::classify_diff(&d)), detail: d, class: exec::Class::PostCommit, tx: 1, op: None });
                    }
                }
            })
        });
        if r.is_err() {
            viol.push(("failed-commit:retry-panics".into(), format!("retrying the transaction after its commit failed at {} panicked", nth_s)));
        } else if let Some(v) = run2.out.violations.first() {
            viol.push((format!("failed-commit:retry:{}", v.sig), format!("retrying the transaction after its commit failed at {}: {}", nth_s, v.detail)));
        }
    }
    Ok(injected)
}

fn changed_pages(a: &[u8], b: &[u8], ps: usize) -> Vec<usize> {
    let n = a.len().max(b.len()) / ps + 1;
    (0..n).filter(|i| {
        let (lo, hi) = (i * ps, (i + 1) * ps);
        a.get(lo..hi.min(a.len())) != b.get(lo..hi.min(b.len()))
    }).collect()
}

/// (f) a write transaction in which every call FAILS (missing bucket, wrong kind of entry, missing key,
/// existing bucket) and which is then committed must write exactly what a transaction without any call
/// writes: an error-returning call may not even mark something for rewriting.
/// (g) in strict mode a commit that the built-in check refuses (the file was made inconsistent by hand:
/// one free-list entry dropped) must leave the committed state as it was.
fn error_only_case(h: &History, path: &std::path::Path, viol: &mut Vec<(String, String)>) -> Result<u64, String> {
    let _ = std::fs::remove_file(path);
    let out = exec::run_history(h, &ExecCfg::default(), path);
    if out.aborted {
        return Err(crate::report::workload_failure(out.violations.first(), "could not build the state"));
    }
    let mut model = MBucket::default();
    replay_model(h, &mut model);
    let before = std::fs::read(path).map_err(|e| e.to_string())?;
    let ps = h.pagesize as usize;
    let twin = path.with_extension("twin");
    std::fs::write(&twin, &before).map_err(|e| e.to_string())?;
    let mut calls = 0u64;
    // the twin: a write transaction without any call
    {
        let db = exec::open_db(&twin, h).map_err(|e| e.to_string())?;
        let tx = db.tx(true).map_err(|e| e.to_string())?;
        tx.commit().map_err(|e| format!("empty commit: {}", e))?;
    }
    // the subject: failing calls only
    {
        let db = exec::open_db(path, h).map_err(|e| e.to_string())?;
        let tx = db.tx(true).map_err(|e| e.to_string())?;
        let absent = b"zz-never-created".to_vec();
        let _ = tx.delete_bucket(absent.clone());
        let _ = tx.get_bucket(absent.clone());
        calls += 2;
        for path_ in model.bucket_paths() {
            if path_.is_empty() {
                continue;
            }
            let mb = model.at(&path_).unwrap();
            let mut b = match tx.get_bucket(path_[0].clone()) {
                Ok(b) => b,
                Err(_) => continue,
            };
            let mut ok = true;
            for p in &path_[1..] {
                match b.get_bucket(p.clone()) {
                    Ok(nb) => b = nb,
                    Err(_) => {
                        ok = false;
                        break;
                    }
                }
            }
            if !ok {
                continue;
            }
            let _ = tx.create_bucket(path_[0].clone()); // exists
            let _ = b.delete_bucket(absent.clone()); // missing
            let _ = b.delete(absent.clone()); // missing
            let _ = b.get_bucket(absent.clone());
            calls += 4;
            for (k, e) in mb.entries.iter().take(4) {
                match e {
                    crate::model::Entry::Val(_) => {
                        let _ = b.delete_bucket(k.clone()); // a pair, not a bucket
                        let _ = b.create_bucket(k.clone());
                        let _ = b.get_or_create_bucket(k.clone());
                        let _ = b.get_bucket(k.clone());
                        calls += 4;
                    }
                    crate::model::Entry::Bucket(_) => {
                        let _ = b.delete(k.clone()); // a bucket, not a pair
                        let _ = b.put(k.clone(), b"v".to_vec());
                        let _ = b.create_bucket(k.clone()); // exists
                        calls += 3;
                    }
                }
            }
        }
        tx.commit().map_err(|e| format!("commit after failing calls only: {}", e))?;
    }
    let after = std::fs::read(path).map_err(|e| e.to_string())?;
    let after_twin = std::fs::read(&twin).map_err(|e| e.to_string())?;
    let _ = std::fs::remove_file(&twin);
    let a = changed_pages(&before, &after, ps);
    let t = changed_pages(&before, &after_twin, ps);
    if a.len() != t.len() || after.len() != after_twin.len() {
        viol.push((
            "error-only-transaction:commit-writes-more-than-an-empty-transaction".into(),
            format!("a transaction in which all {} calls returned errors rewrote pages {:?}; the same commit without any call rewrites {:?}", calls, a.iter().take(12).collect::<Vec<_>>(), t.iter().take(12).collect::<Vec<_>>()),
        ));
    }
    // (g) strict mode on a file whose free list lost an entry: the commit must be refused without effect
    let rep = crate::fileck::check(&after, h.pagesize);
    if let (Some(m), true) = (rep.meta.clone(), rep.ok() && rep.free_entries.len() >= 2) {
        let mut bad = after.clone();
        let off = (m.freelist_page * h.pagesize) as usize + 16; // `count` of the free-list page
        let cnt = u64::from_le_bytes(bad[off..off + 8].try_into().unwrap());
        bad[off..off + 8].copy_from_slice(&(cnt - 1).to_le_bytes());
        std::fs::write(path, &bad).map_err(|e| e.to_string())?;
        let hs = History { strict: true, ..h.clone() };
        let r = util::catch(|| -> Result<bool, String> {
            let db = exec::open_db(path, &hs).map_err(|e| e.to_string())?;
            let refused = {
                let tx = db.tx(true).map_err(|e| e.to_string())?;
                tx.get_or_create_bucket("strict-probe").and_then(|b| b.put("k", "v").map(|_| ())).map_err(|e| e.to_string())?;
                tx.commit().is_err()
            };
            if refused {
                let tx = db.tx(false).map_err(|e| e.to_string())?;
                if let Some(d) = exec::verify_tx_against(&tx, &model, false) {
                    return Err(format!("VISIBLE:{}", d));
                }
            }
            Ok(refused)
        });
        match r {
            Ok(Ok(true)) => {
                // and after a reopen (without strict mode)
                let db = exec::open_db(path, h).map_err(|e| e.to_string())?;
                let tx = db.tx(false).map_err(|e| e.to_string())?;
                if let Some(d) = exec::verify_tx_against(&tx, &model, false) {
                    viol.push(("strict-commit-refused:but-applied-after-reopen".into(), format!("a strict-mode commit returned an error, yet after reopening the contents changed: {}", d)));
                }
                calls += 1;
            }
            Ok(Ok(false)) => {} // the hand-made inconsistency was not noticed: nothing to judge
            Ok(Err(e)) if e.starts_with("VISIBLE:") => viol.push(("strict-commit-refused:but-visible-on-the-same-handle".into(), format!("a strict-mode commit returned an error, yet a later transaction sees its changes: {}", &e[8..]))),
            Ok(Err(_)) | Err(_) => {} // opening / using the damaged file failed in some other way: not this property's business
        }
    }
    Ok(calls)
}

/// apply the committed transactions of a history to a model (handles numbering as in exec)
pub fn replay_model(h: &History, committed: &mut MBucket) {
    for t in &h.txs {
        let mut work = committed.clone();
        let mut hs = crate::gen::Handles::default();
        let mut misuse = false;
        for op in &t.ops {
            let hp = |i: &usize, hs: &crate::gen::Handles| -> Option<Vec<Vec<u8>>> {
                hs.v.get(*i).filter(|x| x.state == crate::gen::HState::Live).map(|x| x.path.clone())
            };
            match op {
                Op::TxCreate { k, .. } => {
                    if work.create_bucket(&k.bytes()).is_ok() { hs.push(vec![k.bytes()]); } else { hs.push_dead(); }
                }
                Op::TxGet { k, .. } => {
                    if work.get_bucket(&k.bytes()).is_ok() { hs.push(vec![k.bytes()]); } else { hs.push_dead(); }
                }
                Op::TxGetOrCreate { k, .. } => {
                    if work.get_or_create_bucket(&k.bytes()).is_ok() { hs.push(vec![k.bytes()]); } else { hs.push_dead(); }
                }
                Op::TxDelete { k, .. } => {
                    if work.delete_bucket(&k.bytes()).is_ok() { hs.on_bucket_deleted(&[k.bytes()]); }
                }
                Op::Put { h, k, v, .. } => {
                    if let Some(p) = hp(h, &hs) { let _ = work.at_mut(&p).unwrap().put(&k.bytes(), &v.bytes()); }
                }
                Op::Delete { h, k } => {
                    if let Some(p) = hp(h, &hs) { let _ = work.at_mut(&p).unwrap().delete(&k.bytes()); }
                }
                Op::Create { h, k, .. } | Op::GetB { h, k, .. } | Op::GetOrCreate { h, k, .. } => {
                    match hp(h, &hs) {
                        Some(p) => {
                            let wb = work.at_mut(&p).unwrap();
                            let ok = match op {
                                Op::Create { .. } => wb.create_bucket(&k.bytes()).is_ok(),
                                Op::GetB { .. } => wb.get_bucket(&k.bytes()).is_ok(),
                                _ => wb.get_or_create_bucket(&k.bytes()).is_ok(),
                            };
                            if ok { let mut np = p; np.push(k.bytes()); hs.push(np); } else { hs.push_dead(); }
                        }
                        None => { hs.push_dead(); }
                    }
                }
                Op::DeleteB { h, k, .. } => {
                    if let Some(p) = hp(h, &hs) {
                        if work.at_mut(&p).unwrap().delete_bucket(&k.bytes()).is_ok() {
                            let mut np = p; np.push(k.bytes()); hs.on_bucket_deleted(&np);
                        }
                    }
                }
                Op::Skip { slot: true } => { hs.push_dead(); }
                Op::Misuse { h, .. } => {
                    if hs.v.get(*h).map(|x| x.state == crate::gen::HState::Deleted).unwrap_or(false) { misuse = true; break; }
                }
                _ => {}
            }
        }
        if t.end == End::Commit && !misuse {
            *committed = work;
        }
    }
}

pub fn run(ctx: &Ctx) -> Shard {
    let mut shard = Shard::new("C06");
    let scratch = Scratch::new("C06");
    let ps = 1024u64;
    let mut total = exec::Stats::default();
    let mut rng = Rng::new(ctx.shard_seed());
    let mut ro_calls = 0u64;
    let mut twins = 0u64;
    let mut twin_commits = 0u64;
    let mut rolled_back_ops_max = 0u64;
    let vio = crate::vio::Vio::get();
    let mut failed_commits = 0u64;

    let histories: Vec<History> = if let Some(rp) = &ctx.replay {
        let doc: serde_json::Value = serde_json::from_slice(&std::fs::read(rp).expect("read replay")).expect("parse");
        vec![serde_json::from_value(doc["case"]["history"].clone()).expect("history")]
    } else {
        let n = ctx.scale(if ctx.thorough() { 3000 } else { 300 });
        (0..n)
            .map(|i| {
                let profile = (i % gen::N_PROFILES as u64) as u8;
                gen::gen_history(&mut rng, &gen_cfg(ps, profile, i % 4 == 0))
            })
            .collect()
    };
    for (i, h) in histories.iter().enumerate() {
        // (a) + (c)
        let path = scratch.fresh("a");
        let out = exec::run_history(h, &cfg_a(), &path);
        let _ = std::fs::remove_file(&path);
        shard.evaluations += 1;
        let hh = h.hash();
        shard.distinct.insert(hh);
        if out.stats.rollback_checks > 0 {
            shard.nontrivial.insert(hh);
        }
        for t in &h.txs {
            if t.end == End::Rollback {
                rolled_back_ops_max = rolled_back_ops_max.max(t.ops.len() as u64);
            }
        }
        total.merge(&out.stats);
        for v in &out.violations {
            if reports(v.class) {
                let replay = serde_json::json!({"kind": "history", "history": h, "at_tx": v.tx, "at_op": v.op});
                shard.violation(ctx, &v.sig, &v.detail, &replay);
            }
        }
        if out.aborted {
            shard.count("histories_cut_short_by_other_properties", 1);
            continue;
        }
        // (b) twin: the same history without its rolled-back transactions
        if h.txs.iter().any(|t| t.end == End::Rollback) {
            let mut twin = h.clone();
            twin.txs.retain(|t| t.end == End::Commit && !t.ops.iter().any(|o| matches!(o, Op::Misuse { .. })));
            let p2 = scratch.fresh("b");
            let out2 = exec::run_history(&twin, &cfg_a(), &p2);
            let _ = std::fs::remove_file(&p2);
            twins += 1;
            if !out2.aborted {
                let a = &out.stats.commit_trace;
                let b = &out2.stats.commit_trace;
                twin_commits += a.len() as u64;
                if a.len() != b.len() {
                    shard.violation(
                        ctx,
                        "twin:different-number-of-commits",
                        &format!("history with rollbacks committed {} times, its twin without them {} times", a.len(), b.len()),
                        &serde_json::json!({"kind": "history", "history": h}),
                    );
                } else {
                    for (k, (x, y)) in a.iter().zip(b.iter()).enumerate() {
                        if x.0 != y.0 {
                            shard.violation(
                                ctx,
                                "twin:contents-differ",
                                &format!("after commit #{} the file contents differ between the history with rolled-back transactions and its twin without them", k),
                                &serde_json::json!({"kind": "history", "history": h}),
                            );
                            break;
                        }
                        if x.1 != y.1 {
                            shard.violation(
                                ctx,
                                "twin:reachable-pages-differ",
                                &format!("after commit #{} the tree occupies {} pages with rolled-back transactions in the history and {} without", k, x.1, y.1),
                                &serde_json::json!({"kind": "history", "history": h}),
                            );
                            break;
                        }
                    }
                }
            }
        }
        // (d) read-only transactions, on a third of the histories
        if i % 3 == 0 || ctx.replay.is_some() {
            let p3 = scratch.fresh("d");
            // every other case on a minimum-size file at a page size that does not divide the 8 MiB
            // allocation step: after the first commit the file is not a whole number of pages long
            let mut hv = h.clone();
            if (i / 3) % 2 == 1 && ctx.replay.is_none() {
                hv.pagesize = [5000u64, 1032, 3000][(i / 6) as usize % 3];
                hv.num_pages = 4;
                shard.count("read_only_cases_on_files_that_are_not_a_whole_number_of_pages", 1);
            }
            let h = &hv;
            match ro_case(h, &p3, &mut ro_calls) {
                Ok(v) => {
                    for (sig, detail) in v {
                        shard.violation(ctx, &sig, &detail, &serde_json::json!({"kind": "history", "history": h, "part": "read-only"}));
                    }
                    shard.count("read_only_cases", 1);
                }
                Err(e) => shard.inconclusive_or_workload(ctx, "", &e, &serde_json::json!({"kind": "history", "history": h})),
            }
            let _ = std::fs::remove_file(&p3);
        }
        // (e) failing commits, on a fifth of the histories (needs the I/O shim)
        if let Some(vio) = &vio {
            if i % 5 == 1 || ctx.replay.is_some() {
                let p4 = scratch.fresh("e");
                let mut v: Vec<(String, String)> = Vec::new();
                match failed_commit_case(h, &p4, vio, &mut v) {
                    Ok(n) => failed_commits += n,
                    Err(e) => shard.inconclusive_or_workload(ctx, "", &e, &serde_json::json!({"kind": "history", "history": h})),
                }
                for (sig, detail) in v {
                    shard.violation(ctx, &sig, &detail, &serde_json::json!({"kind": "history", "history": h, "part": "failed-commit"}));
                }
                let _ = std::fs::remove_file(&p4);
            }
        }
        // (h) the same for a commit that EXTENDS the file (a directed history: a minimum-size file, two small commits,
        // then a transaction with a value of one to nine MiB), once per worker: also the mapping of the extended file fails
        if let Some(vio) = &vio {
            if i == 0 && ctx.replay.is_none() {
                for (gi, big) in [1usize << 20, (9 << 20) + 4321].iter().enumerate() {
                    let small = |n: u64| TxScript { ops: vec![Op::TxGetOrCreate { k: K::lit(b"g"), how: How::Slice }, Op::Put { h: 0, k: K::lit(format!("s{}", n).as_bytes()), v: V { tag: 7000 + n, len: 200 }, how: How::Slice, vhow: How::Slice }], end: End::Commit, reopen: false };
                    let grow = TxScript { ops: vec![Op::TxGetOrCreate { k: K::lit(b"g"), how: How::Slice }, Op::Put { h: 0, k: K::lit(b"big"), v: V { tag: 7100 + gi as u64, len: *big }, how: How::Slice, vhow: How::Slice }, Op::Put { h: 0, k: K::lit(b"s0"), v: V { tag: 7200, len: 100 }, how: How::Slice, vhow: How::Slice }], end: End::Commit, reopen: false };
                    let gh = History { pagesize: if gi == 0 { 1024 } else { 4096 }, num_pages: 4 + 4 * gi, strict: false, populate: false, txs: vec![small(0), small(1), grow], origin: "directed-growing".into(), pins: vec![] };
                    let p6 = scratch.fresh("h");
                    let mut v: Vec<(String, String)> = Vec::new();
                    match failed_commit_case(&gh, &p6, vio, &mut v) {
                        Ok(n) => {
                            failed_commits += n;
                            shard.count("failed_commits_that_had_extended_the_file(write_and_mmap_faults)", n);
                        }
                        Err(e) => shard.inconclusive_or_workload(ctx, "", &e, &serde_json::json!({"kind": "history", "history": gh})),
                    }
                    for (sig, detail) in v {
                        shard.violation(ctx, &sig, &detail, &serde_json::json!({"kind": "history", "history": gh, "part": "failed-commit"}));
                    }
                    let _ = std::fs::remove_file(&p6);
                }
            }
        }
        // (f)+(g) error-only transactions and refused strict commits, on a quarter of the histories
        if i % 4 == 2 && ctx.replay.is_none() {
            let p5 = scratch.fresh("f");
            let mut v: Vec<(String, String)> = Vec::new();
            match error_only_case(h, &p5, &mut v) {
                Ok(n) => {
                    shard.count("failing_calls_in_error_only_transactions", n);
                    shard.count("error_only_transactions_compared_with_an_empty_commit", 1);
                }
                Err(e) => shard.inconclusive_or_workload(ctx, "", &e, &serde_json::json!({"kind": "history", "history": h})),
            }
            for (sig, detail) in v {
                shard.violation(ctx, &sig, &detail, &serde_json::json!({"kind": "history", "history": h, "part": "error-only"}));
            }
            let _ = std::fs::remove_file(&p5);
        }
        if shard.samples.len() < 2 {
            shard.sample(serde_json::json!({"origin": h.origin, "txs": h.txs.iter().map(|t| format!("{:?}({} ops)", t.end, t.ops.len())).collect::<Vec<_>>() }));
        }
    }
    shard.count("rollbacks_checked(file bytes + shared state)", total.rollback_checks);
    shard.count("rollbacks", total.rollbacks);
    shard.count("commits", total.commits);
    shard.count("error_returning_calls_followed_by_full_verification", total.error_calls_verified);
    shard.count("twin_runs", twins);
    shard.count("twin_commits_compared", twin_commits);
    shard.count("read_only_mutator_calls", ro_calls);
    shard.count("opens_of_a_database_with_one_unusable_header_page(bytes compared)", DAMAGED_OPENS.load(std::sync::atomic::Ordering::Relaxed));
    shard.count("opens_of_a_database_with_0.10_layout_headers(bytes compared)", LEGACY_OPENS.load(std::sync::atomic::Ordering::Relaxed));
    shard.count("commits_failed_by_injected_write_error_and_checked_for_traces", failed_commits);
    shard.count("max_ops_in_a_rolled_back_tx", rolled_back_ops_max);
    for ((op, kind), n) in &total.op_results {
        if kind != "ok" && kind != "some" && kind != "none" {
            shard.count(&format!("op:{}:{}", op, kind), *n);
        }
    }
    shard
}
