//! vh – verification harness for jammdb (runtime monitoring).
//! One sub-command per property plus worker modes; see /verif/DESIGN.md.
mod c01;
mod c02;
mod c03;
mod c04;
mod c06;
mod c08;
mod c10;
mod c11;
mod c12;
mod c13;
mod c15;
mod c16;
mod exec;
mod fileck;
mod gen;
mod live;
mod model;
mod ops;
mod report;
mod sched;
mod shape;
mod shrink;
mod snap;
mod util;
mod vio;

use report::{Ctx, Shard};
use std::collections::BTreeMap;
use std::path::PathBuf;

fn usage() -> ! {
    eprintln!(
        "usage: vh <C01..C16|worker> [--tier quick|thorough] [--seed N] [--shard I] [--nshards N] \
         [--out FILE] [--replay FILE] [--set k=v]..."
    );
    std::process::exit(2);
}

fn parse_args() -> (String, Ctx) {
    let mut args = std::env::args().skip(1);
    let cmd = args.next().unwrap_or_else(|| usage());
    let mut ctx = Ctx {
        tier: std::env::var("VERIF_TIER").unwrap_or_else(|_| "quick".into()),
        seed: std::env::var("VERIF_SEED")
            .ok()
            .and_then(|s| s.parse().ok())
            .unwrap_or(1),
        shard: 0,
        nshards: 1,
        out: PathBuf::from("/dev/stdout"),
        replay_dir: PathBuf::from("/verif/out/replays"),
        replay: None,
        extra: BTreeMap::new(),
    };
    while let Some(a) = args.next() {
        let mut val = || args.next().unwrap_or_else(|| usage());
        match a.as_str() {
            "--tier" => ctx.tier = val(),
            "--seed" => ctx.seed = val().parse().unwrap_or_else(|_| usage()),
            "--shard" => ctx.shard = val().parse().unwrap_or_else(|_| usage()),
            "--nshards" => ctx.nshards = val().parse().unwrap_or_else(|_| usage()),
            "--out" => ctx.out = PathBuf::from(val()),
            "--replay-dir" => ctx.replay_dir = PathBuf::from(val()),
            "--replay" => ctx.replay = Some(PathBuf::from(val())),
            "--set" => {
                let kv = val();
                let (k, v) = kv.split_once('=').unwrap_or_else(|| usage());
                ctx.extra.insert(k.to_string(), v.to_string());
            }
            _ => usage(),
        }
    }
    (cmd, ctx)
}

fn main() {
    util::install_panic_hook();
    let (cmd, ctx) = parse_args();
    if cmd == "c13-worker" {
        c13::worker(&ctx);
        return;
    }
    if cmd == "cfg-worker" {
        let r = c16::worker(&ctx);
        println!("{}", serde_json::to_string(&r).unwrap());
        return;
    }
    if matches!(cmd.as_str(), "C01" | "C02" | "C03" | "C05" | "C06" | "C07" | "C08" | "C10" | "C11" | "C12" | "C15" | "C16") && ctx.replay.is_none() {
        let limit: u64 = std::env::var("VERIF_STALL_S").ok().and_then(|s| s.parse().ok()).unwrap_or(180);
        report::start_stall_watchdog(&cmd, ctx.out.clone(), limit);
    }
    if matches!(cmd.as_str(), "C04" | "C09") && ctx.replay.is_none() {
        // the controlling (main) thread of the schedule-driven checks also calls into the database: it builds
        // each scenario's base file and reads the final state.  A call that never comes back there (seeded
        // change C09-p: a reader's begin busy-waits on a flag that a failed remap left set) is outside the
        // controller's own verdicts; one step of this thread takes milliseconds.
        let limit: u64 = std::env::var("VERIF_STALL_S").ok().and_then(|s| s.parse().ok()).unwrap_or(120);
        report::start_stall_watchdog(&cmd, ctx.out.clone(), limit);
    }
    let shard: Shard = match cmd.as_str() {
        "C01" => c01::run(&ctx, c01::Mode::C01),
        "C02" => c02::run(&ctx),
        "C03" => c03::run(&ctx),
        "C04" => c04::run(&ctx, "C04"),
        "C09" => c04::run(&ctx, "C09"),
        "C05" => c01::run(&ctx, c01::Mode::C05),
        "C06" => c06::run(&ctx),
        "C07" => c01::run(&ctx, c01::Mode::C07),
        "C08" => c08::run(&ctx),
        "C10" => c10::run(&ctx),
        "C11" => c11::run(&ctx),
        "C12" => c12::run(&ctx),
        "C13" => c13::run(&ctx),
        "C15" => c15::run(&ctx),
        "C16" => c16::run(&ctx),
        _ => usage(),
    };
    shard.write(&ctx.out);
}
