//! Drivers for C01 (reference-model equivalence), C05 (file well-formedness and
//! page conservation) and C07 (a write transaction reads its own changes).
//! They share the history executor and differ in what is compared and which
//! classes of disagreement they report.
use crate::exec::{self, Class, ExecCfg, Outcome, Stats};
use crate::gen::{self, GenCfg};
use crate::ops::History;
use crate::report::{Ctx, Shard};
use crate::shape;
use crate::util::{Rng, Scratch};

#[derive(Clone, Copy, PartialEq, Eq, Debug)]
pub enum Mode {
    C01,
    C05,
    C07,
}

impl Mode {
    pub fn id(&self) -> &'static str {
        match self {
            Mode::C01 => "C01",
            Mode::C05 => "C05",
            Mode::C07 => "C07",
        }
    }
    pub fn cfg(&self) -> ExecCfg {
        match self {
            Mode::C01 => ExecCfg {
                verify_each_op: false,
                verify_after_commit: true,
                fileck_each_commit: true, // for shape statistics only; errors belong to C05
                rollback_trace: false,
                recheck_handed_back: true,
                ..Default::default()
            },
            Mode::C05 => ExecCfg {
                verify_each_op: false,
                verify_after_commit: false,
                fileck_each_commit: true,
                rollback_trace: false,
                recheck_handed_back: false,
                ..Default::default()
            },
            Mode::C07 => ExecCfg {
                verify_each_op: true,
                verify_after_commit: false,
                fileck_each_commit: false,
                rollback_trace: false,
                recheck_handed_back: true,
                ..Default::default()
            },
        }
    }
    pub fn reports(&self, c: Class) -> bool {
        match self {
            Mode::C01 => matches!(
                c,
                Class::OpResult
                    | Class::ReadInTx
                    | Class::Panic
                    | Class::UnexpectedErr
                    | Class::PostCommit
                    | Class::Reopen
                    | Class::HandedBack
                    | Class::MisuseNoPanic
                    | Class::Open
            ),
            Mode::C05 => matches!(c, Class::Fileck | Class::DbCheck),
            Mode::C07 => matches!(c, Class::ReadInTx | Class::HandedBack),
        }
    }
}

pub fn absorb(
    shard: &mut Shard,
    ctx: &Ctx,
    mode: Mode,
    h: &History,
    out: &Outcome,
    total: &mut Stats,
    family: &str,
) {
    shard.evaluations += 1;
    let hh = h.hash();
    shard.distinct.insert(hh);
    let nontrivial = match mode {
        Mode::C01 | Mode::C05 => out.stats.structural(),
        // C07: a transaction that mutated and was then fully re-read at least twice
        Mode::C07 => out.stats.full_verifications >= 2,
    };
    if nontrivial {
        shard.nontrivial.insert(hh);
    }
    total.merge(&out.stats);
    shard.count(&format!("histories_{}", family), 1);
    if out.aborted {
        shard.count("histories_cut_short", 1);
    }
    let mut foreign = 0;
    for v in &out.violations {
        // C07 also owns a read-class call (lookup, scan, listing) inside the write transaction that
        // panics or reports the wrong error kind: the transaction cannot read its own changes
        let read_op = match v.op {
            Some(oi) => h.txs.get(v.tx).and_then(|t| t.ops.get(oi)).map(|o| o.is_read()).unwrap_or(false),
            None => v.sig.starts_with("verify:"),
        };
        let c07_extra = mode == Mode::C07 && read_op && matches!(v.class, Class::Panic | Class::OpResult);
        if mode.reports(v.class) || c07_extra {
            if shard.violations.iter().any(|x| x.sig == v.sig) {
                continue;
            }
            // shrink the history while it keeps producing the same signature
            let cfg = mode.cfg();
            let sig = v.sig.clone();
            let scratch = crate::util::Scratch::new("shrink");
            // (only the first few witnesses of a shard are shrunk: a badly broken tree yields dozens of signatures)
            let budget = if shard.violations.len() < 5 { 400 } else { 0 };
            let small = crate::shrink::shrink(h, budget, |c| {
                let p = scratch.fresh("k");
                let o = exec::run_history(c, &cfg, &p);
                let _ = std::fs::remove_file(&p);
                o.violations.iter().any(|x| x.sig == sig)
            });
            let replay = serde_json::json!({"kind": "history", "mode": mode.id(), "history": small, "original_ops": h.n_ops(), "at_tx": v.tx, "at_op": v.op});
            shard.violation(ctx, &v.sig, &v.detail, &replay);
        } else {
            foreign += 1;
        }
    }
    if foreign > 0 {
        shard.count("disagreements_belonging_to_other_properties", foreign);
    }
    if shard.samples.len() < 2 && nontrivial {
        let mut hs = h.clone();
        for t in hs.txs.iter_mut() {
            t.ops.truncate(6);
        }
        shard.sample(serde_json::json!({
            "origin": h.origin, "txs": h.txs.len(), "ops": h.n_ops(),
            "first_ops_of_each_tx": hs.txs,
            "commits": out.stats.commits, "splits": out.stats.splits, "merges": out.stats.merges,
        }));
    }
}

pub fn finish(shard: &mut Shard, total: &Stats) {
    for ((op, kind), n) in &total.op_results {
        shard.count(&format!("op:{}:{}", op, kind), *n);
    }
    shard.count("read_only_transactions_held_open_across_write_transactions", total.pinned_readers_opened);
    shard.count("commits_made_while_a_reader_pinned_an_older_snapshot", total.commits_with_a_pinned_reader);
    shard.count("pinned_reader_histories_cut_short_by_the_growth_guard(no verdict)", total.pinned_histories_cut_short_by_the_growth_guard);
    shard.count("bucket_handles_dropped_in_the_middle_of_a_transaction", total.handles_dropped_mid_transaction);
    shard.count("ops", total.ops);
    shard.count("commits", total.commits);
    shard.count("rollbacks", total.rollbacks);
    shard.count("reopens", total.reopens);
    shard.count("expected_misuse_panics", total.expected_panics);
    shard.count("full_state_verifications", total.full_verifications);
    shard.count("fileck_runs", total.fileck_runs);
    shard.count("pages_classified", total.pages_classified);
    for (k, v) in &total.fileck_rule_evals {
        shard.count(&format!("rule:{}", k), *v);
    }
    shard.count("leaf_count_increases(splits)", total.splits);
    shard.count("leaf_count_decreases(merges)", total.merges);
    shard.count("depth_increases", total.depth_up);
    shard.count("depth_decreases(root_collapse)", total.depth_down);
    shard.count("file_growths", total.growths);
    shard.count("commits_with_overflow_runs", total.overflow_commits);
    shard.count("txs_with_2+_bucket_deletions", total.multi_bucket_delete_txs);
    shard.count(
        "txs_deleting_nested_then_ancestor",
        total.nested_then_ancestor_delete_txs,
    );
    shard.count("max_tree_depth", 0);
    shard.count("max_depth", total.max_depth as u64);
    for s in &total.shapes {
        shard.set(
            "tree_shapes(depth,leaves,branches,overflow_runs)",
            format!("{:?}", s),
        );
    }
    for (k, v) in &total.freelist_fill {
        shard.set("free_list_fill_near_capacity(entries of capacity)", format!("{} x{}", k, v.min(&9)));
        if k.split(" of ").next().map(|a| k.contains(&format!("of {} ", a))).unwrap_or(false) {
            shard.count("commits_whose_free_list_exactly_fills_its_pages", *v);
        }
    }
    for (k, v) in &total.how_used {
        shard.count(&format!("tobytes:{}", k), *v);
    }
    for (k, v) in &total.key_classes {
        shard.count(&format!("keysize:{}", k), *v);
    }
    for (k, v) in &total.val_classes {
        shard.count(&format!("valsize:{}", k), *v);
    }
}

pub fn run(ctx: &Ctx, mode: Mode) -> Shard {
    let mut shard = Shard::new(mode.id());
    let scratch = Scratch::new(mode.id());
    let cfg = mode.cfg();
    let mut total = Stats::default();
    let ps: u64 = ctx.get("pagesize").and_then(|s| s.parse().ok()).unwrap_or(1024);
    if ctx.get("direct").is_some() {
        exec::set_direct_writes(true);
    }

    if let Some(rp) = &ctx.replay {
        let is_live = std::fs::read(rp).ok().and_then(|b| serde_json::from_slice::<serde_json::Value>(&b).ok()).map(|d| d["case"]["kind"] == "live").unwrap_or(false);
        if is_live {
            crate::live::run(ctx, &mut shard);
            return shard;
        }
        replay(ctx, mode, rp, &mut shard, &scratch, &mut total);
        finish(&mut shard, &total);
        return shard;
    }

    // ---- 1. grammar histories (seeded)
    let n_grammar = match (mode, ctx.thorough()) {
        (Mode::C07, false) => 300,
        (Mode::C07, true) => 4000,
        (_, false) => 1200,
        (_, true) => 12000,
    };
    let n_grammar = ctx.scale(n_grammar);
    let mut rng = Rng::new(ctx.shard_seed());
    for i in 0..n_grammar {
        let profile = (i % gen::N_PROFILES as u64) as u8;
        let page = if ctx.thorough() && i % 7 == 3 { 4096 } else { ps };
        let mut g = GenCfg::default_for(page, profile);
        if mode == Mode::C07 {
            // full re-read after every op is quadratic: shorter transactions
            g.ops_per_tx = (3, 24);
            g.n_txs = (2, 5);
            if profile == 1 || profile == 4 {
                g.ops_per_tx = (6, 30);
            }
        }
        if ctx.thorough() && i % 11 == 0 {
            g.n_txs = (6, 16);
        }
        let h = gen::gen_history(&mut rng, &g);
        let path = scratch.fresh("g");
        let out = exec::run_history(&h, &cfg, &path);
        let _ = std::fs::remove_file(&path);
        absorb(&mut shard, ctx, mode, &h, &out, &mut total, "grammar");
    }

    // ---- 1b. grammar histories with read-only transactions held open across the write transactions
    // (pre-sized file, no reopen).  What a commit writes to the file differs when a reader pins an older
    // snapshot: freed pages stay pending over several commits, the free-list page has to carry every
    // pending generation, nothing is reused - seeded change C05-n persisted only the committing
    // transaction's own pending pages, which is the whole list whenever no reader is open.
    if mode != Mode::C07 {
        crate::c03::install_no_grow_handler();
        let n_pinned = ctx.scale(if ctx.thorough() { 3000 } else { 320 });
        for i in 0..n_pinned {
            let profile = (i % gen::N_PROFILES as u64) as u8;
            let mut g = GenCfg::default_for(ps, profile);
            g.p_reopen = 0;
            g.p_misuse = 0;
            g.n_txs = (4, 10);
            g.ops_per_tx = (3, 24);
            g.max_value = (3 * ps) as usize;
            let mut h = gen::gen_history(&mut rng, &g);
            for t in h.txs.iter_mut() {
                t.reopen = false;
            }
            let n = h.txs.len();
            // one long-lived reader from the first third on, and one or two short ones
            let a = rng.usize(n / 3 + 1);
            h.pins.push((a, (a + 2 + rng.usize(n)).min(n - 1)));
            for _ in 0..(1 + rng.usize(2)) {
                let a = rng.usize(n);
                h.pins.push((a, (a + rng.usize(3)).min(n - 1)));
            }
            h.num_pages = exec::presize_for_pins(&h);
            h.origin = format!("{} + pinned readers {:?}", h.origin, h.pins);
            let path = scratch.fresh("p");
            let out = exec::run_history(&h, &cfg, &path);
            let _ = std::fs::remove_file(&path);
            absorb(&mut shard, ctx, mode, &h, &out, &mut total, "pinned-readers");
        }
    }

    // ---- 2. shape-directed subsets (seed independent; partitioned over shards)
    // (the sanitizer pass repeats the quick-tier enumeration: its allocator costs a factor of ten)
    let deep = ctx.thorough() && ctx.get("build") != Some("asan");
    let window = if deep { 12 } else { 8 };
    let families: Vec<usize> = if deep {
        (0..shape::N_FAMILIES).collect()
    } else {
        vec![0, 2, 5]
    };
    let mut idx: u64 = 0;
    let mut enumerated_all = true;
    for bs in shape::base_shapes(ps, deep) {
        let p = match shape::plan(&bs, ps, &scratch.fresh("plan"), window) {
            Ok(p) => p,
            Err(e) => {
                // the base tree itself cannot be built: that is a finding of the
                // grammar part (same code path); here it only limits coverage
                shard.notes.push(e);
                enumerated_all = false;
                continue;
            }
        };
        shard.set(
            "base_shapes(name,depth,leaves)",
            format!("{}: depth {} leaves {:?}", bs.name, p.depth, p.leaves.iter().map(|l| l.len()).collect::<Vec<_>>()),
        );
        for wi in 0..p.windows.len() {
            let w = p.windows[wi].len();
            for fam in &families {
                // insertion families on a smaller window in quick mode
                let bits = if !deep && *fam != 0 && *fam != 5 { w.min(6) } else { w };
                let step: u32 = if mode == Mode::C07 && ctx.thorough() && bits > 10 { 3 } else { 1 };
                let mut mask: u32 = 1;
                while mask < (1u32 << bits) {
                    if idx % ctx.nshards == ctx.shard {
                        let h = shape::subset_history(&p, wi, mask, *fam);
                        let path = scratch.fresh("s");
                        let out = exec::run_history(&h, &cfg, &path);
                        let _ = std::fs::remove_file(&path);
                        absorb(&mut shard, ctx, mode, &h, &out, &mut total, "shape");
                    }
                    idx += 1;
                    mask += step;
                }
                if step != 1 {
                    enumerated_all = false;
                }
            }
        }
    }
    shard.count("shape_subsets_enumerated_in_total(all shards)", 0);
    shard.set("shape_enumeration_complete", format!("{}", enumerated_all));

    // ---- 3. directed nested-bucket-deletion family
    let mut i = 0usize;
    while let Some(h) = shape::nested_delete_history(ps, i) {
        if (i as u64) % ctx.nshards == ctx.shard {
            let path = scratch.fresh("n");
            let out = exec::run_history(&h, &cfg, &path);
            let _ = std::fs::remove_file(&path);
            absorb(&mut shard, ctx, mode, &h, &out, &mut total, "nested-delete");
        }
        i += 1;
    }
    // ---- 4. directed: free lists spanning several pages
    let mut i = 0usize;
    while let Some(h) = shape::big_freelist_history(ps, i) {
        // (re-reading everything after each of thousands of operations would take minutes and adds nothing for C07)
        if mode != Mode::C07 && (i as u64 + 5) % ctx.nshards == ctx.shard {
            let path = scratch.fresh("f");
            let out = exec::run_history(&h, &cfg, &path);
            let _ = std::fs::remove_file(&path);
            absorb(&mut shard, ctx, mode, &h, &out, &mut total, "big-free-list");
        }
        i += 1;
    }
    // ---- 5. directed: one commit that extends the file by more than one allocation step
    let mut i = 0usize;
    while let Some(h) = shape::big_commit_history(ps, i) {
        if mode != Mode::C07 && (i as u64 + 9) % ctx.nshards == ctx.shard && (deep || i < 4) {
            let path = scratch.fresh("b");
            let out = exec::run_history(&h, &cfg, &path);
            let _ = std::fs::remove_file(&path);
            absorb(&mut shard, ctx, mode, &h, &out, &mut total, "big-commit");
        }
        i += 1;
    }
    // ---- 5b. directed: deep trees (five or six levels), cascading merges
    let mut i = 0usize;
    while let Some(h) = shape::deep_tree_history(ps, i) {
        if (i as u64 + 1) % ctx.nshards == ctx.shard && (mode != Mode::C07 || i < 2) && (deep || i < 6) {
            let path = scratch.fresh("d");
            let out = exec::run_history(&h, &cfg, &path);
            let _ = std::fs::remove_file(&path);
            absorb(&mut shard, ctx, mode, &h, &out, &mut total, "deep-tree");
        }
        i += 1;
    }
    // ---- 5c. directed: exact sizes (every value length around page multiples) and free-list lengths around a full page
    let mut i = 0usize;
    while let Some(h) = shape::exact_fit_history(if deep && i % 2 == 1 { 4096 } else { ps }, i) {
        if (i as u64 + 3) % ctx.nshards == ctx.shard && mode != Mode::C07 && (deep || i < 5) {
            let path = scratch.fresh("e");
            let out = exec::run_history(&h, &cfg, &path);
            let _ = std::fs::remove_file(&path);
            absorb(&mut shard, ctx, mode, &h, &out, &mut total, "exact-fit");
        }
        i += 1;
    }
    let mut i = 0usize;
    while let Some(h) = shape::freelist_walk_history(ps, i) {
        if (i as u64 + 12) % ctx.nshards == ctx.shard && mode != Mode::C07 {
            let path = scratch.fresh("w");
            let out = exec::run_history(&h, &cfg, &path);
            let _ = std::fs::remove_file(&path);
            absorb(&mut shard, ctx, mode, &h, &out, &mut total, "free-list-walk");
        }
        i += 1;
    }
    // ---- 5d. directed: directory of nested buckets (four levels), delete one / write into another
    {
        let n = 72usize;
        let mut idx = 0u64;
        for d in 0..n {
            for w in 0..n {
                let near = (d as i64 - w as i64).abs() <= 4;
                // quick: the written bucket near the deleted one, plus a thin sample of far pairs
                if !(deep || near || (d * 31 + w * 17) % 23 == 0) || mode == Mode::C07 {
                    continue;
                }
                idx += 1;
                if idx % ctx.nshards != ctx.shard {
                    continue;
                }
                let h = shape::bucket_dir_history(ps, n, d, w, (d + w) % 3);
                let path = scratch.fresh("bd");
                let out = exec::run_history(&h, &cfg, &path);
                let _ = std::fs::remove_file(&path);
                absorb(&mut shard, ctx, mode, &h, &out, &mut total, "bucket-directory");
            }
        }
    }
    // ---- 5d'. directed: a wide bucket (65-200 sub-buckets); a write two levels down whose handles are all
    // dropped before every sub-bucket is opened; then back to it from the top (all three checks)
    {
        let mut idx = 0u64;
        for n in [65usize, 66, 80, 130, 200] {
            for target in [0usize, 1, n / 2, n - 2, n - 1] {
                for variant in 0..6usize {
                    idx += 1;
                    if idx % ctx.nshards != ctx.shard || (!deep && n > 80 && variant > 2) {
                        continue;
                    }
                    let h = shape::wide_dir_history(ps, n, target, variant);
                    let path = scratch.fresh("wd");
                    let out = exec::run_history(&h, &cfg, &path);
                    let _ = std::fs::remove_file(&path);
                    absorb(&mut shard, ctx, mode, &h, &out, &mut total, "wide-directory");
                }
            }
        }
    }
    // ---- 5e. directed: the root directory as a multi-page tree; every prefix / suffix / middle run of the
    // top-level buckets deleted in one transaction
    {
        let mut idx = 0u64;
        for n in [20usize, 36, 60, 300] {
            let mut runs: Vec<(usize, usize)> = Vec::new();
            if n <= 36 {
                for p in 1..=n {
                    runs.push((0, p)); // prefixes
                    runs.push((n - p, n)); // suffixes
                }
                runs.push((n / 3, 2 * n / 3));
            } else {
                for p in [1, 17, 18, 34, n / 2, n - 17, n - 1, n] {
                    runs.push((0, p));
                    runs.push((n - p, n));
                }
            }
            for (a, b) in runs {
                idx += 1;
                if idx % ctx.nshards != ctx.shard || mode == Mode::C07 || (!deep && n > 60) {
                    continue;
                }
                let h = shape::root_dir_history(ps, n, a, b);
                let path = scratch.fresh("rd");
                let out = exec::run_history(&h, &cfg, &path);
                let _ = std::fs::remove_file(&path);
                absorb(&mut shard, ctx, mode, &h, &out, &mut total, "root-directory");
            }
        }
    }
    // ---- 6. C07 only: iterations that are under way while the transaction mutates entries ahead of them
    if mode == Mode::C07 {
        crate::live::run(ctx, &mut shard);
    }
    finish(&mut shard, &total);
    shard
}

fn replay(
    ctx: &Ctx,
    mode: Mode,
    rp: &std::path::Path,
    shard: &mut Shard,
    scratch: &Scratch,
    total: &mut Stats,
) {
    let doc: serde_json::Value =
        serde_json::from_slice(&std::fs::read(rp).expect("read replay file")).expect("parse replay");
    let h: History = serde_json::from_value(doc["case"]["history"].clone()).expect("history in replay");
    let path = scratch.fresh("r");
    let out = exec::run_history(&h, &mode.cfg(), &path);
    for v in &out.violations {
        eprintln!("replay: [{:?}] {} :: {}", v.class, v.sig, v.detail);
    }
    absorb(shard, ctx, mode, &h, &out, total, "replay");
}
