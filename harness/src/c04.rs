//! C04 (snapshot isolation under every thread schedule) and C09 (writers
//! serialized, no lost update, no deadlock): real threads on the real database
//! under the schedule controller (sched.rs).
use crate::exec;
use crate::fileck;
use crate::model::MBucket;
use crate::report::{Ctx, Shard};
use crate::sched::{self, Decision, ExecTrace, Inner, Job, Strategy};
use crate::snap;
use crate::util::{self, Rng, Scratch};
use jammdb::{OpenOptions, DB};
use serde::{Deserialize, Serialize};
use std::collections::{BTreeMap, BTreeSet};
use std::sync::atomic::{AtomicI32, Ordering};
use std::sync::{Arc, Mutex};

#[derive(Clone, Debug, Serialize, Deserialize, PartialEq, Eq, Hash)]
pub struct Scenario {
    pub property: String,
    pub readers: usize,
    /// reader transactions per reader thread
    pub reads_per_reader: usize,
    /// re-reads inside each reader transaction
    pub rereads: usize,
    pub commits: usize,
    /// the k-th commit (1-based) writes a 1 MiB value so that the file grows (0 = none)
    pub grow_at: usize,
    pub writers: usize,
    pub increments_per_writer: usize,
    pub keys: usize,
    pub pagesize: u64,
    pub num_pages: usize,
    /// scripted scenario: the total order of actions (worker 0 = writer, 1.. = readers);
    /// actions: "commit", "begin", "read", "close".  Empty = free exploration.
    #[serde(default)]
    pub script: Vec<(usize, String)>,
    /// commits touch different buckets / leaves in turn, and a multi-page value is appended at the end of
    /// the file by one commit and deleted by the next (instead of every commit rewriting the same leaf)
    #[serde(default)]
    pub varied: bool,
    /// the set-up ends with a growing commit whose remap fails (`mmap` -> ENOMEM through the shim): the file is
    /// extended, the shared map is not, and the first commit that needs the new pages maps the file again
    /// without extending it (the path added by the F15 repair) - under the schedules, with readers open
    #[serde(default)]
    pub failed_remap: bool,
    /// C09: writer 0's k-th increment (1-based, 0 = never) ends in a panic of the *client's* code while its
    /// write transaction is open (the transaction is dropped by the unwinding).  Whatever the database does
    /// afterwards - the pinned code refuses further writers with a lock error - every thread that keeps
    /// using the handle must still come back from every call.
    #[serde(default)]
    pub client_panic: usize,
}

/// what commit number `c` of the C04 writer chain does: (bucket, key, Some(value) = put / None = delete)
fn commit_ops(sc: &Scenario, c: usize) -> Vec<(&'static str, Vec<u8>, Option<Vec<u8>>)> {
    let mut v: Vec<(&'static str, Vec<u8>, Option<Vec<u8>>)> = Vec::new();
    v.push(("d", b"version".to_vec(), Some((c as u64).to_be_bytes().to_vec())));
    if sc.varied {
        match c % 3 {
            1 => {
                v.push(("e", b"blob".to_vec(), Some(value(c, 777, 5 * sc.pagesize as usize + 100))));
                v.push(("e", key(c % 6), Some(value(c, c % 6, 300))));
            }
            2 => {
                v.push(("e", b"blob".to_vec(), None));
                v.push(("e", key((c + 3) % 6), Some(value(c, (c + 3) % 6, 300))));
            }
            _ => {
                for i in 0..sc.keys {
                    v.push(("d", key(i), Some(value(c, i, 90 + c))));
                }
            }
        }
        return v;
    }
    for i in 0..sc.keys {
        v.push(("d", key(i), Some(value(c, i, 90 + c))));
    }
    if c % 2 == 0 {
        v.push(("d", key(c % sc.keys), None));
    } else {
        v.push(("d", key(100 + c), Some(value(c, 100 + c, 40))));
    }
    if sc.grow_at == c {
        v.push(("d", b"big".to_vec(), Some(value(c, 999, 1 << 20))));
    }
    v
}

#[derive(Clone, Debug)]
enum Ev {
    ReaderBeginCall { seq: u64 },
    ReaderBeginRet { seq: u64, tx_id: u64 },
    ReaderDump { seq: u64, digest: u64, counter_ok: Option<bool>, detail: String },
    ReaderClose { seq: u64 },
    WriterBeginCall { seq: u64 },
    WriterBeginRet { seq: u64, tx_id: u64, free: Vec<u64>, num_pages: u64 },
    CommitCall { seq: u64, n: usize },
    CommitRet { seq: u64, n: usize, ok: bool, reach: Option<(u64, BTreeSet<u64>)>, err: String },
    WriterOverlap { seq: u64, inside: i32 },
    Increment { seq: u64, writer: usize, k: usize, saw: u64 },
    Panic { seq: u64, msg: String },
    ClientPanic { seq: u64 },
    WriterRefused { seq: u64, err: String },
}

type Log = Arc<Mutex<Vec<Ev>>>;

fn key(i: usize) -> Vec<u8> {
    format!("key{:03}", i).into_bytes()
}

fn value(commit: usize, i: usize, len: usize) -> Vec<u8> {
    let tag = ((commit as u64) << 32) | i as u64;
    let t = tag.to_le_bytes();
    (0..len).map(|j| t[j % 8] ^ (j as u8)).collect()
}

/// the states S_0 .. S_n of the C04 writer chain
fn c04_states(sc: &Scenario) -> Vec<MBucket> {
    let mut v = Vec::new();
    let mut m = MBucket::default();
    let _ = m.create_bucket(b"d");
    for i in 0..sc.keys {
        let _ = m.at_mut(&[b"d".to_vec()]).unwrap().put(&key(i), &value(0, i, 90));
    }
    let _ = m.at_mut(&[b"d".to_vec()]).unwrap().put(b"version", &0u64.to_be_bytes());
    v.push(m.clone());
    if sc.varied {
        let _ = m.create_bucket(b"e");
        for i in 0..6 {
            let _ = m.at_mut(&[b"e".to_vec()]).unwrap().put(&key(i), &value(0, i, 300));
        }
        v[0] = m.clone();
    }
    for c in 1..=sc.commits {
        for (bk, k, val) in commit_ops(sc, c) {
            let b = m.at_mut(&[bk.as_bytes().to_vec()]).unwrap();
            match val {
                Some(x) => {
                    let _ = b.put(&k, &x);
                }
                None => {
                    let _ = b.delete(&k);
                }
            }
        }
        v.push(m.clone());
    }
    v
}

fn prepare(sc: &Scenario, path: &std::path::Path) -> Result<DB, String> {
    let _ = std::fs::remove_file(path);
    let db = OpenOptions::new().pagesize(sc.pagesize).num_pages(sc.num_pages).open(path).map_err(|e| e.to_string())?;
    {
        let tx = db.tx(true).map_err(|e| e.to_string())?;
        let b = tx.create_bucket("d").map_err(|e| e.to_string())?;
        if sc.property == "C04" {
            for i in 0..sc.keys {
                b.put(key(i), value(0, i, 90)).map_err(|e| e.to_string())?;
            }
            b.put("version", 0u64.to_be_bytes()).map_err(|e| e.to_string())?;
            if sc.varied {
                let e = tx.create_bucket("e").map_err(|e| e.to_string())?;
                for i in 0..6 {
                    e.put(key(i), value(0, i, 300)).map_err(|x| x.to_string())?;
                }
            }
        } else {
            b.put("counter", 0u64.to_be_bytes()).map_err(|e| e.to_string())?;
        }
        tx.commit().map_err(|e| e.to_string())?;
    }
    if sc.failed_remap {
        let vio = crate::vio::Vio::get().ok_or_else(|| "set-up: the I/O shim is not loaded".to_string())?;
        vio.reset();
        vio.arm(crate::vio::CLASS_MMAP, 0, libc::ENOMEM, 0);
        let r = (|| -> Result<(), jammdb::Error> {
            let tx = db.tx(true)?;
            let b = tx.get_bucket("d")?;
            b.put("junk", vec![3u8; 1 << 20])?;
            tx.commit()
        })();
        let fired = vio.stats().fired;
        vio.reset();
        if r.is_ok() || fired == 0 {
            return Err(format!("set-up: the injected mmap failure did not make the growing commit fail (fired {}, result {:?})", fired, r.map_err(|e| e.to_string())));
        }
    }
    Ok(db)
}

fn reach_of_newest(path: &std::path::Path, ps: u64) -> Option<(u64, BTreeSet<u64>)> {
    let head = snap::read_prefix(path, 2 * ps);
    let (m, _) = fileck::choose_meta(&head, ps);
    let m = m?;
    let img = snap::read_prefix(path, m.num_pages * ps);
    let p = snap::pin(&img, ps, &m);
    Some((m.tx_id, p.reach))
}

fn c04_writer(db: DB, sc: Scenario, path: std::path::PathBuf, log: Log) -> Box<dyn FnOnce(Arc<Inner>) + Send> {
    Box::new(move |g: Arc<Inner>| {
        let n_threads = sc.writers.max(1);
        for _round in 0..(sc.commits / n_threads) {
            g.point(sched::P_BEFORE_BEGIN);
            log.lock().unwrap().push(Ev::WriterBeginCall { seq: g.tick() });
            let tx = match db.tx(true) {
                Ok(t) => t,
                Err(e) => {
                    log.lock().unwrap().push(Ev::Panic { seq: g.tick(), msg: format!("writer begin failed: {}", e) });
                    return;
                }
            };
            let ts = tx.verif_tx_state();
            log.lock().unwrap().push(Ev::WriterBeginRet { seq: g.tick(), tx_id: ts.tx_id, free: ts.free.clone(), num_pages: ts.num_pages });
            let c: usize;
            {
                let b = tx.get_bucket("d").unwrap();
                // the commit number comes from the database: whichever writer thread runs next extends the chain
                c = b.get_kv("version").map(|kv| u64::from_be_bytes(kv.value().try_into().unwrap_or([0; 8]))).unwrap_or(0) as usize + 1;
                let e = if sc.varied { tx.get_bucket("e").ok() } else { None };
                for (bk, k, val) in commit_ops(&sc, c) {
                    let target = if bk == "e" { e.as_ref().unwrap() } else { &b };
                    match val {
                        Some(x) => {
                            target.put(k, x).unwrap();
                        }
                        None => {
                            let _ = target.delete(k);
                        }
                    }
                }
            }
            g.point(sched::P_BEFORE_COMMIT);
            log.lock().unwrap().push(Ev::CommitCall { seq: g.tick(), n: c });
            let r = tx.commit();
            let seq = g.tick();
            let reach = if r.is_ok() { reach_of_newest(&path, sc.pagesize) } else { None };
            log.lock().unwrap().push(Ev::CommitRet { seq, n: c, ok: r.is_ok(), reach, err: r.err().map(|e| e.to_string()).unwrap_or_default() });
            g.point(sched::P_AFTER_COMMIT);
        }
    })
}

fn c04_reader(db: DB, sc: Scenario, log: Log) -> Box<dyn FnOnce(Arc<Inner>) + Send> {
    Box::new(move |g: Arc<Inner>| {
        for _ in 0..sc.reads_per_reader {
            g.point(sched::P_BEFORE_BEGIN);
            log.lock().unwrap().push(Ev::ReaderBeginCall { seq: g.tick() });
            let r = util::catch(|| {
                let tx = db.tx(false).expect("reader begin");
                let ts = tx.verif_tx_state();
                log.lock().unwrap().push(Ev::ReaderBeginRet { seq: g.tick(), tx_id: ts.tx_id });
                for k in 0..=sc.rereads {
                    if k > 0 {
                        g.point(sched::P_STEP);
                    }
                    let d = exec::dump_tx(&tx);
                    let seq = g.tick();
                    match d {
                        Ok(m) => log.lock().unwrap().push(Ev::ReaderDump { seq, digest: m.digest(), counter_ok: None, detail: String::new() }),
                        Err(e) => log.lock().unwrap().push(Ev::ReaderDump { seq, digest: 0, counter_ok: None, detail: e }),
                    }
                }
                g.point(sched::P_BEFORE_DROP);
                // the reader's life ends when it starts to close: it deregisters inside drop
                let close_seq = g.tick();
                drop(tx);
                log.lock().unwrap().push(Ev::ReaderClose { seq: close_seq });
            });
            if let Err(p) = r {
                log.lock().unwrap().push(Ev::Panic { seq: g.tick(), msg: format!("reader panicked at {}:{}: {}", p.file, p.line, p.msg) });
                log.lock().unwrap().push(Ev::ReaderClose { seq: g.tick() });
            }
            // DB::check() is a reader of its own (it also reads its snapshot's free-list page, which no other
            // reader does): it begins, is preempted and finishes at the same yield points, between the commits
            g.point(sched::P_STEP);
            match util::catch(|| db.check()) {
                Ok(Ok(())) => {}
                Ok(Err(e)) => log.lock().unwrap().push(Ev::Panic { seq: g.tick(), msg: format!("DB::check() on a reader thread failed: {}", e) }),
                Err(p) => log.lock().unwrap().push(Ev::Panic { seq: g.tick(), msg: format!("DB::check() on a reader thread panicked at {}:{}: {}", p.file, p.line, p.msg) }),
            }
        }
    })
}

// ---- scripted workers: a fixed total order of actions, driven by the global stage ----

fn scripted_writer(db: DB, sc: Scenario, path: std::path::PathBuf, log: Log) -> Box<dyn FnOnce(Arc<Inner>) + Send> {
    Box::new(move |g: Arc<Inner>| {
        for (idx, (w, act)) in sc.script.iter().enumerate() {
            if *w != 0 || act != "commit" {
                continue;
            }
            g.wait_stage(idx as u64);
            log.lock().unwrap().push(Ev::WriterBeginCall { seq: g.tick() });
            let tx = match db.tx(true) {
                Ok(t) => t,
                Err(e) => {
                    log.lock().unwrap().push(Ev::Panic { seq: g.tick(), msg: format!("writer begin failed: {}", e) });
                    g.bump_stage();
                    return;
                }
            };
            let ts = tx.verif_tx_state();
            log.lock().unwrap().push(Ev::WriterBeginRet { seq: g.tick(), tx_id: ts.tx_id, free: ts.free.clone(), num_pages: ts.num_pages });
            let c: usize;
            {
                let b = tx.get_bucket("d").unwrap();
                c = b.get_kv("version").map(|kv| u64::from_be_bytes(kv.value().try_into().unwrap_or([0; 8]))).unwrap_or(0) as usize + 1;
                let e = if sc.varied { tx.get_bucket("e").ok() } else { None };
                for (bk, k, val) in commit_ops(&sc, c) {
                    let target = if bk == "e" { e.as_ref().unwrap() } else { &b };
                    match val {
                        Some(x) => {
                            target.put(k, x).unwrap();
                        }
                        None => {
                            let _ = target.delete(k);
                        }
                    }
                }
            }
            log.lock().unwrap().push(Ev::CommitCall { seq: g.tick(), n: c });
            let r = tx.commit();
            let seq = g.tick();
            let reach = if r.is_ok() { reach_of_newest(&path, sc.pagesize) } else { None };
            log.lock().unwrap().push(Ev::CommitRet { seq, n: c, ok: r.is_ok(), reach, err: r.err().map(|e| e.to_string()).unwrap_or_default() });
            g.bump_stage();
        }
    })
}

fn scripted_reader(db: DB, sc: Scenario, me: usize, log: Log) -> Box<dyn FnOnce(Arc<Inner>) + Send> {
    Box::new(move |g: Arc<Inner>| {
        let mine: Vec<(usize, String)> = sc.script.iter().enumerate().filter(|(_, (w, _))| *w == me).map(|(i, (_, a))| (i, a.clone())).collect();
        let r = util::catch(|| {
            let mut tx = None;
            for (idx, act) in &mine {
                g.wait_stage(*idx as u64);
                match act.as_str() {
                    "begin" => {
                        log.lock().unwrap().push(Ev::ReaderBeginCall { seq: g.tick() });
                        let t = db.tx(false).expect("reader begin");
                        let ts = t.verif_tx_state();
                        log.lock().unwrap().push(Ev::ReaderBeginRet { seq: g.tick(), tx_id: ts.tx_id });
                        let d = exec::dump_tx(&t);
                        let seq = g.tick();
                        match d {
                            Ok(m) => log.lock().unwrap().push(Ev::ReaderDump { seq, digest: m.digest(), counter_ok: None, detail: String::new() }),
                            Err(e) => log.lock().unwrap().push(Ev::ReaderDump { seq, digest: 0, counter_ok: None, detail: e }),
                        }
                        tx = Some(t);
                    }
                    "read" => {
                        if let Some(t) = &tx {
                            let d = exec::dump_tx(t);
                            let seq = g.tick();
                            match d {
                                Ok(m) => log.lock().unwrap().push(Ev::ReaderDump { seq, digest: m.digest(), counter_ok: None, detail: String::new() }),
                                Err(e) => log.lock().unwrap().push(Ev::ReaderDump { seq, digest: 0, counter_ok: None, detail: e }),
                            }
                        }
                    }
                    _ => {
                        let close_seq = g.tick();
                        drop(tx.take());
                        log.lock().unwrap().push(Ev::ReaderClose { seq: close_seq });
                    }
                }
                g.bump_stage();
            }
        });
        if let Err(p) = r {
            log.lock().unwrap().push(Ev::Panic { seq: g.tick(), msg: format!("reader panicked at {}:{}: {}", p.file, p.line, p.msg) });
            log.lock().unwrap().push(Ev::ReaderClose { seq: g.tick() });
            // let the script go on without this reader
            for _ in 0..mine.len() {
                g.bump_stage();
            }
        }
    })
}

// ---- C09 workers -----------------------------------------------------------

static CLIENT_PANICKED: std::sync::atomic::AtomicBool = std::sync::atomic::AtomicBool::new(false);
const CLIENT_PANIC_MSG: &str = "deliberate panic of the client's code inside an open write transaction";

fn c09_writer(db: DB, sc: Scenario, w: usize, inside: Arc<AtomicI32>, log: Log) -> Box<dyn FnOnce(Arc<Inner>) + Send> {
    Box::new(move |g: Arc<Inner>| {
        for k in 0..sc.increments_per_writer {
            g.point(sched::P_BEFORE_BEGIN);
            log.lock().unwrap().push(Ev::WriterBeginCall { seq: g.tick() });
            let refused = std::cell::Cell::new(false);
            let r = util::catch(|| {
                let tx = match db.tx(true) {
                    Ok(tx) => tx,
                    Err(e) if sc.client_panic != 0 && CLIENT_PANICKED.load(Ordering::SeqCst) => {
                        // after a client panic inside a write transaction the database may refuse further
                        // writers (the pinned code reports the poisoned lock); it must not hang
                        log.lock().unwrap().push(Ev::WriterRefused { seq: g.tick(), err: e.to_string() });
                        refused.set(true);
                        return;
                    }
                    Err(e) => panic!("writer begin: {}", e),
                };
                let was = inside.fetch_add(1, Ordering::SeqCst);
                if was != 0 {
                    log.lock().unwrap().push(Ev::WriterOverlap { seq: g.tick(), inside: was + 1 });
                }
                let ts = tx.verif_tx_state();
                log.lock().unwrap().push(Ev::WriterBeginRet { seq: g.tick(), tx_id: ts.tx_id, free: vec![], num_pages: ts.num_pages });
                let saw;
                {
                    let b = tx.get_bucket("d").unwrap();
                    saw = b.get_kv("counter").map(|kv| u64::from_be_bytes(kv.value().try_into().unwrap_or([0; 8]))).unwrap_or(u64::MAX);
                    g.point(sched::P_STEP);
                    b.put("counter", (saw.wrapping_add(1)).to_be_bytes()).unwrap();
                    b.put(format!("inc-{}-{}", w, k), saw.to_be_bytes()).unwrap();
                    if sc.grow_at != 0 && w == 0 && k + 1 == sc.grow_at {
                        b.put("big", vec![7u8; 1 << 20]).unwrap();
                    }
                }
                g.point(sched::P_BEFORE_COMMIT);
                inside.fetch_sub(1, Ordering::SeqCst);
                if sc.client_panic != 0 && w == 0 && k + 1 == sc.client_panic {
                    CLIENT_PANICKED.store(true, Ordering::SeqCst);
                    log.lock().unwrap().push(Ev::ClientPanic { seq: g.tick() });
                    panic!("{}", CLIENT_PANIC_MSG);
                }
                log.lock().unwrap().push(Ev::CommitCall { seq: g.tick(), n: k });
                let r = tx.commit();
                let seq = g.tick();
                if r.is_ok() {
                    log.lock().unwrap().push(Ev::Increment { seq, writer: w, k, saw });
                }
                log.lock().unwrap().push(Ev::CommitRet { seq, n: k, ok: r.is_ok(), reach: None, err: r.err().map(|e| e.to_string()).unwrap_or_default() });
            });
            if let Err(p) = r {
                if p.msg.contains(CLIENT_PANIC_MSG) {
                    continue; // the client's own panic: this thread carries on with the same handle
                }
                log.lock().unwrap().push(Ev::Panic { seq: g.tick(), msg: format!("writer panicked at {}:{}: {}", p.file, p.line, p.msg) });
                return;
            }
            if refused.get() {
                return;
            }
            g.point(sched::P_AFTER_COMMIT);
        }
    })
}

fn c09_reader(db: DB, sc: Scenario, log: Log) -> Box<dyn FnOnce(Arc<Inner>) + Send> {
    Box::new(move |g: Arc<Inner>| {
        for _ in 0..sc.reads_per_reader {
            g.point(sched::P_BEFORE_BEGIN);
            log.lock().unwrap().push(Ev::ReaderBeginCall { seq: g.tick() });
            let r = util::catch(|| {
                let tx = db.tx(false).expect("reader begin");
                let ts = tx.verif_tx_state();
                log.lock().unwrap().push(Ev::ReaderBeginRet { seq: g.tick(), tx_id: ts.tx_id });
                for k in 0..=sc.rereads {
                    if k > 0 {
                        g.point(sched::P_STEP);
                    }
                    let b = tx.get_bucket("d").unwrap();
                    let counter = b.get_kv("counter").map(|kv| u64::from_be_bytes(kv.value().try_into().unwrap_or([0; 8]))).unwrap_or(u64::MAX);
                    let incs = b.kv_pairs().filter(|kv| kv.key().starts_with(b"inc-")).count() as u64;
                    let seq = g.tick();
                    log.lock().unwrap().push(Ev::ReaderDump {
                        seq,
                        digest: counter,
                        counter_ok: Some(counter == incs),
                        detail: format!("counter {} but {} increment keys", counter, incs),
                    });
                }
                g.point(sched::P_BEFORE_DROP);
                // the reader's life ends when it starts to close: it deregisters inside drop
                let close_seq = g.tick();
                drop(tx);
                log.lock().unwrap().push(Ev::ReaderClose { seq: close_seq });
                // the built-in consistency check is a read-only operation too: it must neither fail nor
                // wait for an open writer (this thread holds no transaction now)
                g.point(sched::P_STEP);
                if let Err(e) = db.check() {
                    log.lock().unwrap().push(Ev::Panic { seq: g.tick(), msg: format!("DB::check() on a reader thread failed: {}", e) });
                }
            });
            if let Err(p) = r {
                log.lock().unwrap().push(Ev::Panic { seq: g.tick(), msg: format!("reader panicked at {}:{}: {}", p.file, p.line, p.msg) });
            }
        }
    })
}

// ---------------------------------------------------------------------------

#[derive(Default)]
pub struct St {
    pub client_panic_executions: u64,
    pub writers_refused_after_client_panic: u64,
    pub executions: u64,
    pub decisions: u64,
    pub preemptions: u64,
    pub blocked_detected: u64,
    pub reader_txs: u64,
    pub reader_dumps: u64,
    pub commits: u64,
    pub window_1: u64,
    pub window_2: u64,
    pub readers_saw_old_state_legitimately: u64,
    pub readers_overlapping_commit: u64,
    pub invariant_pairs: u64,
    pub growth_commits: u64,
    pub increments: u64,
    pub free_runs: u64,
    pub final_checks: u64,
    pub exactly_full_starts: u64,
    pub failed_remap_starts: u64,
    pub check_calls: u64,
    pub distinct: BTreeSet<u64>,
    pub nontrivial: BTreeSet<u64>,
}

pub struct Outcome {
    pub trace: ExecTrace,
    pub violations: Vec<(String, String)>,
}

enum Mode {
    Baton(Strategy),
    Free { seed: u64, max_sleep_us: u64 },
}

fn execute(sc: &Scenario, mode: Mode, path: &std::path::Path, st: &mut St) -> Result<Outcome, String> {
    crate::report::progress();
    let db = prepare(sc, path)?;
    crate::report::progress();
    let g = sched::global();
    let mut logs: Vec<Log> = Vec::new();
    let mut workers: Vec<Box<dyn FnOnce(Arc<Inner>) + Send>> = Vec::new();
    let is_c04 = sc.property == "C04";
    let s0_reach = reach_of_newest(path, sc.pagesize);
    {
        let head = snap::read_prefix(path, 2 * sc.pagesize);
        if let (Some(m), _) = fileck::choose_meta(&head, sc.pagesize) {
            if std::fs::metadata(path).map(|md| md.len() == m.num_pages * sc.pagesize).unwrap_or(false) {
                st.exactly_full_starts += 1;
            }
        }
    }
    if sc.failed_remap {
        st.failed_remap_starts += 1;
    }
    let inside = Arc::new(AtomicI32::new(0));
    CLIENT_PANICKED.store(false, Ordering::SeqCst);
    if sc.client_panic != 0 {
        st.client_panic_executions += 1;
    }
    let mut roles: Vec<&'static str> = Vec::new();
    if is_c04 && !sc.script.is_empty() {
        let l: Log = Arc::new(Mutex::new(Vec::new()));
        logs.push(l.clone());
        roles.push("writer");
        workers.push(scripted_writer(db.clone(), sc.clone(), path.to_path_buf(), l));
        for r in 1..=sc.readers {
            let l: Log = Arc::new(Mutex::new(Vec::new()));
            logs.push(l.clone());
            roles.push("reader");
            workers.push(scripted_reader(db.clone(), sc.clone(), r, l));
        }
    } else if is_c04 {
        for _ in 0..sc.writers.max(1) {
            let l: Log = Arc::new(Mutex::new(Vec::new()));
            logs.push(l.clone());
            roles.push("writer");
            workers.push(c04_writer(db.clone(), sc.clone(), path.to_path_buf(), l));
        }
        for _ in 0..sc.readers {
            let l: Log = Arc::new(Mutex::new(Vec::new()));
            logs.push(l.clone());
            roles.push("reader");
            workers.push(c04_reader(db.clone(), sc.clone(), l));
        }
    } else {
        for w in 0..sc.writers {
            let l: Log = Arc::new(Mutex::new(Vec::new()));
            logs.push(l.clone());
            roles.push("writer");
            workers.push(c09_writer(db.clone(), sc.clone(), w, inside.clone(), l));
        }
        for _ in 0..sc.readers {
            let l: Log = Arc::new(Mutex::new(Vec::new()));
            logs.push(l.clone());
            roles.push("reader");
            workers.push(c09_reader(db.clone(), sc.clone(), l));
        }
    }
    let n_workers = workers.len();
    let job = Job { workers, examine: roles.iter().map(|r| *r == "reader").collect() };
    let mut viol: Vec<(String, String)> = Vec::new();
    let trace = match mode {
        Mode::Baton(s) => sched::run_baton(job, s, 20_000),
        Mode::Free { seed, max_sleep_us } => {
            st.free_runs += 1;
            let mut t = ExecTrace::default();
            match sched::run_free(job, seed, max_sleep_us, 30_000) {
                Ok(true) => {}
                Ok(false) => t.inconclusive = Some("free-running stress: watchdog fired".into()),
                Err(d) if d.starts_with("spin:") => t.spin = Some(d),
                Err(d) => t.deadlock = Some(d),
            }
            t
        }
    };
    st.executions += 1;
    st.decisions += trace.decisions.len() as u64;
    st.preemptions += trace.preemptions as u64;
    st.blocked_detected += trace.blocked_events as u64;
    if let Some(d) = &trace.deadlock {
        viol.push(("deadlock".into(), d.clone()));
        return Ok(Outcome { trace, violations: viol });
    }
    if let Some(d) = &trace.spin {
        viol.push(("non-termination:worker-spins-while-everybody-else-stands-still".into(), d.clone()));
        return Ok(Outcome { trace, violations: viol });
    }
    if trace.inconclusive.is_some() {
        return Ok(Outcome { trace, violations: viol });
    }
    // a reader blocked on a lock that no other worker's position explains, and that stayed blocked for a
    // quarter of a second while every other worker was parked at a yield point
    for (w, last, lasts, ms) in &trace.unexplained {
        if roles[*w] == "reader" {
            viol.push((
                "reader-blocked-by-open-writer".into(),
                format!("reader worker {} blocked after {} for {} ms although no other worker was inside the short critical section or the file extension that may hold that lock (last points {:?})", w, sched::point_name(*last), ms, lasts.iter().map(|p| sched::point_name(*p)).collect::<Vec<_>>()),
            ));
        }
    }
    // ---- gather events
    let mut all: Vec<(usize, Ev)> = Vec::new();
    for (i, l) in logs.iter().enumerate() {
        for e in l.lock().unwrap().iter() {
            all.push((i, e.clone()));
        }
    }
    for (_, e) in &all {
        if let Ev::Panic { msg, .. } = e {
            viol.push((format!("panic:{}", util::panic_signature(&util::PanicInfo { file: String::new(), line: 0, msg: msg.clone() })), msg.clone()));
        }
    }
    if is_c04 {
        judge_c04(sc, &all, &g, n_workers, s0_reach, st, &mut viol);
    } else {
        judge_c09(sc, &all, &db, st, &mut viol);
    }
    // whatever the schedule, the file the threads leave behind must be sound
    if viol.is_empty() {
        if let Err(e) = db.check() {
            viol.push((format!("final-state:db-check:{}", exec::fileck_sig(&e.to_string())), format!("after all threads finished DB::check reports: {}", e)));
        }
        let head = snap::read_prefix(path, 2 * sc.pagesize);
        if let (Some(m), _) = fileck::choose_meta(&head, sc.pagesize) {
            let img = snap::read_prefix(path, m.num_pages * sc.pagesize);
            let rep = fileck::check(&img, sc.pagesize);
            if !rep.ok() {
                viol.push((format!("final-state:file-unsound:{}", exec::fileck_sig(&rep.errors[0])), format!("after all threads finished the file is unsound: {}", rep.errors[0])));
            }
        }
        // every transaction has ended: nothing may be left in the shared reader list (a registration that
        // outlives its reader pins every page freed from then on)
        if trace.inconclusive.is_none() {
            let shared = db.verif_state();
            if !shared.readers.is_empty() {
                viol.push(("final-state:reader-still-registered".into(), format!("after all threads finished and every transaction was dropped the list of open readers is {:?}", shared.readers)));
            }
        }
        st.final_checks += 1;
    }
    drop(db);
    Ok(Outcome { trace, violations: viol })
}

#[allow(clippy::too_many_arguments)]
fn judge_c04(sc: &Scenario, all: &[(usize, Ev)], g: &Arc<Inner>, n_workers: usize, s0_reach: Option<(u64, BTreeSet<u64>)>, st: &mut St, viol: &mut Vec<(String, String)>) {
    let states = c04_states(sc);
    let digests: Vec<u64> = states.iter().map(|m| m.digest()).collect();
    let mut commit_call: BTreeMap<usize, u64> = BTreeMap::new();
    let mut commit_ret: BTreeMap<usize, u64> = BTreeMap::new();
    let mut reach: BTreeMap<u64, BTreeSet<u64>> = BTreeMap::new(); // tx_id -> reachable pages
    let mut state_of_txid: BTreeMap<u64, usize> = BTreeMap::new();
    if let Some((id, r)) = s0_reach {
        reach.insert(id, r);
        state_of_txid.insert(id, 0);
    }
    struct WLife {
        begin_ret: u64,
        end: u64,
        free: BTreeSet<u64>,
        tx_id: u64,
        num_pages: u64,
    }
    let mut writers: Vec<WLife> = Vec::new();
    for (_, e) in all {
        match e {
            Ev::CommitCall { seq, n } => {
                commit_call.insert(*n, *seq);
            }
            Ev::CommitRet { seq, n, ok, reach: r, err } => {
                if !*ok {
                    viol.push(("commit-failed".into(), format!("commit #{} returned an error: {}", n, err)));
                    continue;
                }
                st.commits += 1;
                commit_ret.insert(*n, *seq);
                if let Some((id, set)) = r {
                    reach.insert(*id, set.clone());
                    state_of_txid.insert(*id, *n);
                }
                if let Some(w) = writers.last_mut() {
                    w.end = *seq;
                }
            }
            Ev::WriterBeginRet { seq, tx_id, free, num_pages } => writers.push(WLife { begin_ret: *seq, end: u64::MAX, free: free.iter().cloned().collect(), tx_id: *tx_id, num_pages: *num_pages }),
            _ => {}
        }
    }
    if sc.grow_at > 0 && commit_ret.contains_key(&sc.grow_at) {
        st.growth_commits += 1;
    }
    // per reader transaction
    for w in 0..n_workers {
        let evs: Vec<&Ev> = all.iter().filter(|(i, _)| *i == w).map(|(_, e)| e).collect();
        let mut i = 0;
        while i < evs.len() {
            if let Ev::ReaderBeginCall { seq: call } = evs[i] {
                let mut ret = None;
                let mut dumps: Vec<(u64, u64, String)> = Vec::new();
                let mut close = u64::MAX;
                let mut j = i + 1;
                while j < evs.len() {
                    match evs[j] {
                        Ev::ReaderBeginRet { seq, tx_id } => ret = Some((*seq, *tx_id)),
                        Ev::ReaderDump { seq, digest, detail, .. } => dumps.push((*seq, *digest, detail.clone())),
                        Ev::ReaderClose { seq } => {
                            close = *seq;
                            break;
                        }
                        Ev::ReaderBeginCall { .. } => break,
                        _ => {}
                    }
                    j += 1;
                }
                i = j;
                let (ret_seq, _txid) = match ret {
                    Some(r) => r,
                    None => continue,
                };
                st.reader_txs += 1;
                st.reader_dumps += dumps.len() as u64;
                let lo = commit_ret.values().filter(|s| **s < *call).count();
                let hi = commit_call.values().filter(|s| **s < ret_seq).count();
                if let Some((_, d0, detail)) = dumps.first() {
                    match digests.iter().position(|d| d == d0) {
                        None => viol.push((
                            "reader-saw-uncommitted-or-mixed-state".into(),
                            format!("a reader's first full read equals none of the {} committed states ({})", digests.len(), if detail.is_empty() { "contents differ" } else { detail }),
                        )),
                        Some(idx) => {
                            if idx < lo {
                                viol.push((
                                    "reader-saw-stale-state".into(),
                                    format!("a reader that began after {} commits had returned sees the state after commit {}", lo, idx),
                                ));
                            } else if idx > hi {
                                viol.push((
                                    "reader-saw-future-state".into(),
                                    format!("a reader sees the state after commit {} although only {} commits had been started when its begin returned", idx, hi),
                                ));
                            }
                            if idx < commit_ret.values().filter(|s| **s < close).count() {
                                st.readers_overlapping_commit += 1;
                            }
                            // free-set safety: writers alive during this reader's life may not own pages of its snapshot
                            let snap_txid = state_of_txid.iter().find(|(_, s)| **s == idx).map(|(t, _)| *t);
                            if let Some(t) = snap_txid {
                                if let Some(rs) = reach.get(&t) {
                                    for wl in &writers {
                                        // (the writer that produced the snapshot naturally owned its pages)
                                        if wl.begin_ret < close && wl.end > *call && wl.tx_id > t {
                                            st.invariant_pairs += 1;
                                            // pages at or beyond the writer's high-water mark are handed out next when the
                                            // free set cannot serve a request: none of them may belong to the reader
                                            if let Some(p) = rs.iter().rev().next().filter(|p| **p >= wl.num_pages) {
                                                viol.push((
                                                    "writer-high-water-mark-below-live-reader-snapshot".into(),
                                                    format!("writer tx {} (alive while the reader was) began with a page count of {}, but page {} belongs to the reader's snapshot (state after commit {}): the next page appended would overwrite it", wl.tx_id, wl.num_pages, p, idx),
                                                ));
                                                break;
                                            }
                                            if let Some(p) = rs.intersection(&wl.free).next() {
                                                viol.push((
                                                    "free-set-intersects-live-reader-snapshot".into(),
                                                    format!("writer tx {} (alive while the reader was) may allocate page {}, which is reachable from the reader's snapshot (state after commit {})", wl.tx_id, p, idx),
                                                ));
                                                break;
                                            }
                                        }
                                    }
                                }
                            }
                        }
                    }
                    for (k, (_, d, detail)) in dumps.iter().enumerate().skip(1) {
                        if d != d0 {
                            viol.push((
                                "reader-snapshot-changed".into(),
                                format!("re-read #{} inside one read-only transaction differs from its first read ({})", k, if detail.is_empty() { "contents differ" } else { detail }),
                            ));
                            break;
                        }
                    }
                }
                // the window between choosing the snapshot and registering
                let hl = g.hook_log(w);
                let mut after_meta = None;
                for (code, t) in hl {
                    if t < *call || t > ret_seq {
                        continue;
                    }
                    if code == 3 {
                        after_meta = Some(t);
                    }
                    if code == 4 {
                        if let Some(a) = after_meta {
                            let n = commit_ret.values().filter(|s| **s > a && **s < t).count();
                            if n >= 1 {
                                st.window_1 += 1;
                            }
                            if n >= 2 {
                                st.window_2 += 1;
                            }
                        }
                    }
                }
            } else {
                i += 1;
            }
        }
    }
}

fn judge_c09(sc: &Scenario, all: &[(usize, Ev)], db: &DB, st: &mut St, viol: &mut Vec<(String, String)>) {
    let mut incs: Vec<(usize, usize, u64)> = Vec::new();
    for (_, e) in all {
        match e {
            Ev::WriterOverlap { inside, .. } => viol.push((
                "two-writers-inside".into(),
                format!("{} write transactions were open at the same time", inside),
            )),
            Ev::Increment { writer, k, saw, .. } => incs.push((*writer, *k, *saw)),
            Ev::CommitRet { ok: false, err, .. } => viol.push(("commit-failed".into(), format!("commit returned an error: {}", err))),
            Ev::ReaderDump { counter_ok: Some(false), detail, .. } => viol.push(("reader-saw-inconsistent-counter".into(), detail.clone())),
            _ => {}
        }
    }
    st.increments += incs.len() as u64;
    let mut seen: BTreeMap<u64, (usize, usize)> = BTreeMap::new();
    for (w, k, saw) in &incs {
        if let Some(prev) = seen.insert(*saw, (*w, *k)) {
            viol.push((
                "lost-update".into(),
                format!("counter value {} was read by two committed increments (writer {} #{} and writer {} #{})", saw, prev.0, prev.1, w, k),
            ));
        }
    }
    let r = util::catch(|| {
        let tx = db.tx(false).expect("final read");
        let b = tx.get_bucket("d").expect("bucket d");
        let counter = b.get_kv("counter").map(|kv| u64::from_be_bytes(kv.value().try_into().unwrap_or([0; 8]))).unwrap_or(u64::MAX);
        let keys = b.kv_pairs().filter(|kv| kv.key().starts_with(b"inc-")).count() as u64;
        (counter, keys)
    });
    match r {
        Ok((counter, keys)) => {
            if counter != incs.len() as u64 || keys != incs.len() as u64 {
                viol.push((
                    "lost-update".into(),
                    format!("{} increments committed but the counter is {} and {} increment keys exist", incs.len(), counter, keys),
                ));
            }
        }
        Err(p) => viol.push(("final-read-panics".into(), p.msg)),
    }
    st.writers_refused_after_client_panic += all.iter().filter(|(_, e)| matches!(e, Ev::WriterRefused { .. })).count() as u64;
    if sc.client_panic == 0 && incs.len() != sc.writers * sc.increments_per_writer && viol.is_empty() {
        viol.push(("writer-did-not-finish".into(), format!("{} of {} increments committed", incs.len(), sc.writers * sc.increments_per_writer)));
    }
}

/// Directed interleavings that need more context switches than the preemption bound allows:
/// readers of different ages (and of the same age) closing in every order between commits.
fn scripted_scenarios(base: &Scenario) -> Vec<Scenario> {
    let mut v = Vec::new();
    let s = |w: usize, a: &str| (w, a.to_string());
    // three readers on snapshots 0, 1 and 3; they close in every order, two commits after each close
    let orders: [[usize; 3]; 6] = [[1, 2, 3], [1, 3, 2], [2, 1, 3], [2, 3, 1], [3, 1, 2], [3, 2, 1]];
    for o in orders.iter() {
        let mut sc = vec![s(1, "begin"), s(0, "commit"), s(2, "begin"), s(0, "commit"), s(0, "commit"), s(3, "begin")];
        let mut open = vec![1usize, 2, 3];
        for r in o.iter() {
            sc.push(s(*r, "close"));
            open.retain(|x| x != r);
            sc.push(s(0, "commit"));
            sc.push(s(0, "commit"));
            for x in &open {
                sc.push(s(*x, "read"));
            }
            sc.push(s(0, "commit"));
            for x in &open {
                sc.push(s(*x, "read"));
            }
        }
        let commits = sc.iter().filter(|x| x.1 == "commit").count();
        v.push(Scenario { readers: 3, commits, script: sc, keys: 8, ..base.clone() });
    }
    // commits that touch different buckets in turn (and a multi-page value appended at the end of the file by
    // one commit, deleted by the next): an old reader, a second one k commits later, both re-read after every
    // further commit
    for gap in [1usize, 3, 4, 6] {
        let mut sc = vec![s(0, "commit"), s(1, "begin")];
        for _ in 0..gap {
            sc.push(s(0, "commit"));
        }
        sc.push(s(2, "begin"));
        for _ in 0..5 {
            sc.push(s(0, "commit"));
            sc.push(s(1, "read"));
            sc.push(s(2, "read"));
        }
        sc.push(s(1, "close"));
        sc.push(s(0, "commit"));
        sc.push(s(2, "read"));
        sc.push(s(2, "close"));
        let commits = sc.iter().filter(|x| x.1 == "commit").count();
        v.push(Scenario { readers: 2, commits, script: sc, keys: 8, varied: true, num_pages: 256, ..base.clone() }); // (pre-sized: in a scripted total order a writer that has to extend the file would wait for the open readers for ever)
    }
    // two (and three) readers of the SAME snapshot; one closes, the other must stay protected
    for n in [2usize, 3] {
        for first in 1..=n {
            let mut sc = vec![s(0, "commit")];
            for r in 1..=n {
                sc.push(s(r, "begin"));
            }
            sc.push(s(first, "close"));
            let open: Vec<usize> = (1..=n).filter(|x| *x != first).collect();
            for _ in 0..3 {
                sc.push(s(0, "commit"));
                for x in &open {
                    sc.push(s(*x, "read"));
                }
            }
            for x in &open {
                sc.push(s(*x, "close"));
            }
            sc.push(s(0, "commit"));
            let commits = sc.iter().filter(|x| x.1 == "commit").count();
            v.push(Scenario { readers: n, commits, script: sc, keys: 8, ..base.clone() });
        }
    }
    v
}

pub fn scenarios(prop: &str, thorough: bool) -> Vec<Scenario> {
    let base = Scenario {
        property: prop.to_string(),
        readers: 1,
        reads_per_reader: 1,
        rereads: 2,
        commits: 2,
        grow_at: 0,
        writers: 0,
        increments_per_writer: 0,
        keys: 6,
        pagesize: 1024,
        num_pages: 64,
        script: vec![],
        varied: false,
        failed_remap: false,
        client_panic: 0,
    };
    if prop == "C04" {
        let mut v = vec![
            Scenario { commits: 3, ..base.clone() },
            Scenario { readers: 2, commits: 2, rereads: 1, ..base.clone() },
            Scenario { commits: 4, rereads: 1, reads_per_reader: 2, ..base.clone() },
            Scenario { commits: 2, grow_at: 2, num_pages: 16, ..base.clone() },
            // a commit that grows the file FOLLOWED by page-reusing commits: a reader that begins while
            // the growing commit is writing must survive the commits after it
            Scenario { commits: 4, grow_at: 2, num_pages: 16, rereads: 2, ..base.clone() },
            Scenario { readers: 2, commits: 3, grow_at: 1, num_pages: 16, rereads: 1, ..base.clone() },
            // the set-up commit leaves the 7-page file full to its last page: the first writer begins on an
            // exactly full file (and its commit extends it) while readers are open on other threads
            Scenario { readers: 2, commits: 3, num_pages: 7, rereads: 1, ..base.clone() },
            // the first growing commit finds the file already long but the map short (an earlier remap failed)
            Scenario { readers: 2, commits: 3, grow_at: 1, num_pages: 16, rereads: 1, failed_remap: true, ..base.clone() },
            // commits that touch different buckets in turn; a multi-page value appended at the end of the file by
            // one commit and deleted by the next; readers of different ages
            Scenario { readers: 2, commits: 6, rereads: 2, varied: true, ..base.clone() },
            Scenario { readers: 1, commits: 7, rereads: 3, varied: true, num_pages: 16, ..base.clone() },
            // three readers of different ages (the oldest may close first)
            Scenario { readers: 3, commits: 4, rereads: 1, ..base.clone() },
            // two writer threads extending one chain (a writer may queue behind an open writer)
            Scenario { writers: 2, readers: 1, commits: 4, rereads: 1, ..base.clone() },
        ];
        if thorough {
            v.push(Scenario { readers: 2, commits: 3, rereads: 2, ..base.clone() });
            v.push(Scenario { readers: 2, commits: 4, rereads: 1, keys: 14, ..base.clone() });
            v.push(Scenario { readers: 1, commits: 3, grow_at: 1, num_pages: 16, pagesize: 4096, ..base.clone() });
        }
        v.extend(scripted_scenarios(&base));
        if crate::vio::Vio::get().is_none() {
            v.retain(|s| !s.failed_remap); // (the ThreadSanitizer pass runs without the I/O shim)
        }
        v
    } else {
        let b = Scenario { writers: 2, increments_per_writer: 2, readers: 1, rereads: 0, commits: 0, ..base.clone() };
        let mut v = vec![
            b.clone(),
            Scenario { writers: 3, increments_per_writer: 1, readers: 1, ..b.clone() },
            Scenario { writers: 2, increments_per_writer: 2, readers: 2, grow_at: 1, num_pages: 8, ..b.clone() },
            // exactly full 7-page file at the first writer's begin (see C04)
            Scenario { writers: 2, increments_per_writer: 2, readers: 2, num_pages: 7, ..b.clone() },
            // the growing increment maps the file again without extending it (an earlier remap failed, see C04)
            Scenario { writers: 2, increments_per_writer: 2, readers: 2, grow_at: 1, num_pages: 8, failed_remap: true, ..b.clone() },
            // after a failed remap only readers come: nobody is going to map the file again, and a reader's begin
            // must not wait for that (seeded change C09-p busy-waits on a "file is growing" flag the failed remap
            // left set; with a growing writer around, the flag is cleared before anybody notices)
            Scenario { writers: 0, increments_per_writer: 0, readers: 2, rereads: 1, grow_at: 0, num_pages: 8, failed_remap: true, ..b.clone() },
            // a client panic inside writer 0's first (second) write transaction; everybody else carries on
            Scenario { writers: 3, increments_per_writer: 2, readers: 1, client_panic: 1, ..b.clone() },
            Scenario { writers: 2, increments_per_writer: 3, readers: 1, client_panic: 2, ..b.clone() },
        ];
        if thorough {
            v.push(Scenario { writers: 3, increments_per_writer: 2, readers: 2, rereads: 1, ..b.clone() });
            v.push(Scenario { writers: 2, increments_per_writer: 3, readers: 1, grow_at: 2, num_pages: 8, pagesize: 4096, ..b.clone() });
        }
        if crate::vio::Vio::get().is_none() {
            v.retain(|s| !s.failed_remap);
        }
        v
    }
}

fn trace_hash(sc: &Scenario, t: &ExecTrace) -> u64 {
    let mut h = util::fnv64(serde_json::to_string(sc).unwrap().as_bytes());
    for d in &t.decisions {
        h = util::fnv64_more(h, &[d.chosen as u8, d.at as u8]);
    }
    h
}

fn preemptions_in(decs: &[Decision], upto: usize) -> u32 {
    decs[..upto].iter().filter(|d| matches!(d.current, Some(c) if c != d.chosen && d.enabled.contains(&c))).count() as u32
}

#[allow(clippy::too_many_arguments)]
fn handle(ctx: &Ctx, shard: &mut Shard, st: &mut St, sc: &Scenario, out: &Outcome, how: &str, replay: serde_json::Value) {
    let h = trace_hash(sc, &out.trace);
    st.distinct.insert(h);
    if out.trace.preemptions > 0 || out.trace.blocked_events > 0 || how != "dfs" {
        st.nontrivial.insert(h);
    }
    if let Some(i) = &out.trace.inconclusive {
        shard.inconclusive(format!("[{}] {}", how, i));
    }
    for (sig, detail) in &out.violations {
        let sched_txt: Vec<String> = out.trace.decisions.iter().map(|d| format!("w{}@{}", d.chosen, sched::point_name(d.at))).collect();
        let mut r = replay.clone();
        r["schedule_readable"] = serde_json::json!(sched_txt);
        shard.violation(ctx, sig, &format!("[{} r={} w={} commits={} grow_at={} via {}] {}", sc.property, sc.readers, sc.writers.max(1), sc.commits, sc.grow_at, how, detail), &r);
    }
    if out.trace.spin.is_some() || out.trace.runaway {
        // the spinning thread cannot be stopped and would compete with everything that follows (and its
        // database handle stays alive): this worker process reports what it has and ends here
        shard.count("executions", st.executions);
        shard.notes.push("a worker thread spins for ever: this shard stopped after reporting it".into());
        shard.write(&ctx.out);
        std::process::exit(0);
    }
    if shard.samples.len() < 2 && out.trace.preemptions >= 1 && out.trace.decisions.len() > 10 {
        let sched_txt: Vec<String> = out.trace.decisions.iter().take(40).map(|d| format!("w{}@{}", d.chosen, sched::point_name(d.at))).collect();
        shard.sample(serde_json::json!({"scenario": sc, "strategy": how, "preemptions": out.trace.preemptions, "first_40_decisions": sched_txt}));
    }
}

pub fn run(ctx: &Ctx, prop: &str) -> Shard {
    let mut shard = Shard::new(prop);
    let scratch = Scratch::new(prop);
    let path = scratch.fresh("sched");
    let mut st = St::default();
    sched::global();
    if let Some(rp) = &ctx.replay {
        let doc: serde_json::Value = serde_json::from_slice(&std::fs::read(rp).expect("read replay")).expect("parse");
        let sc: Scenario = serde_json::from_value(doc["case"]["scenario"].clone()).expect("scenario");
        let pfx: Vec<usize> = serde_json::from_value(doc["case"]["choices"].clone()).unwrap_or_default();
        for attempt in 0..20 {
            let mode = if doc["case"]["strategy"] == "free" {
                Mode::Free { seed: doc["case"]["seed"].as_u64().unwrap_or(1) + attempt, max_sleep_us: 2000 }
            } else {
                Mode::Baton(Strategy::Prefix(pfx.clone()))
            };
            match execute(&sc, mode, &path, &mut st) {
                Ok(out) => {
                    handle(ctx, &mut shard, &mut st, &sc, &out, "replay", doc["case"].clone());
                    if !out.violations.is_empty() {
                        break;
                    }
                }
                Err(e) => shard.inconclusive(e),
            }
        }
        shard.evaluations = st.executions;
        return shard;
    }
    let scs = scenarios(prop, ctx.thorough());
    if ctx.get("tsan").is_some() {
        // ThreadSanitizer build: free-running executions only, no harness-side synchronisation,
        // no oracle - the sanitizer's reports (exit status 66) are the verdict
        let g = sched::global();
        g.quiet.store(true, Ordering::SeqCst);
        let n = ctx.scale(12);
        let mut rng = Rng::new(ctx.shard_seed());
        for sc in &scs {
            for _ in 0..n {
                let _ = execute(sc, Mode::Free { seed: rng.next(), max_sleep_us: 0 }, &path, &mut st);
            }
        }
        shard.evaluations = st.executions;
        shard.count("tsan_free_running_executions", st.executions);
        return shard;
    }
    let p_bound: u32 = if ctx.thorough() { 3 } else { 2 };
    let dfs_budget = ctx.scale(if ctx.thorough() { 6000 } else { 350 });
    let mut rng = Rng::new(ctx.shard_seed());
    let mut exhausted_all = true;
    for (si, sc) in scs.iter().enumerate() {
        if !sc.script.is_empty() {
            // a scripted interleaving: one run under the baton and a few free-running ones; split over the shards
            if (si as u64) % ctx.nshards != ctx.shard {
                continue;
            }
            for k in 0..4u64 {
                let mode = if k == 0 { Mode::Baton(Strategy::Prefix(vec![])) } else { Mode::Free { seed: rng.next(), max_sleep_us: [0u64, 100, 1000][(k % 3) as usize] } };
                match execute(sc, mode, &path, &mut st) {
                    Ok(out) => handle(ctx, &mut shard, &mut st, sc, &out, "scripted", serde_json::json!({"kind": "schedule", "scenario": sc, "strategy": if k == 0 { "prefix" } else { "free" }, "choices": [], "seed": 1})),
                    Err(e) => shard.inconclusive(e),
                }
            }
            shard.count("scripted_interleavings_run", 1);
            continue;
        }
        // ---- bounded-preemption DFS; the first-level children are split over the shards
        let mut stack: std::collections::VecDeque<Vec<usize>> = std::collections::VecDeque::from(vec![vec![]]);
        let mut executed = 0u64;
        let mut first = true;
        while let Some(pfx) = stack.pop_front() {
            if executed >= dfs_budget {
                exhausted_all = false;
                break;
            }
            let out = match execute(sc, Mode::Baton(Strategy::Prefix(pfx.clone())), &path, &mut st) {
                Ok(o) => o,
                Err(e) => {
                    shard.inconclusive(e);
                    continue;
                }
            };
            executed += 1;
            let choices: Vec<usize> = out.trace.decisions.iter().map(|d| d.chosen).collect();
            handle(ctx, &mut shard, &mut st, sc, &out, "dfs", serde_json::json!({"kind": "schedule", "scenario": sc, "strategy": "prefix", "choices": choices}));
            if out.trace.inconclusive.is_some() || out.trace.deadlock.is_some() {
                continue;
            }
            // children: deviate at every decision at or after the end of the prefix
            let decs = &out.trace.decisions;
            let mut child_index = 0u64;
            for i in pfx.len()..decs.len() {
                let used = preemptions_in(decs, i);
                for alt in &decs[i].enabled {
                    if *alt == decs[i].chosen {
                        continue;
                    }
                    let is_preempt = matches!(decs[i].current, Some(c) if decs[i].enabled.contains(&c));
                    if used + is_preempt as u32 > p_bound {
                        continue;
                    }
                    child_index += 1;
                    if first && child_index % ctx.nshards != ctx.shard {
                        continue; // another shard explores this subtree
                    }
                    let mut c: Vec<usize> = decs[..i].iter().map(|d| d.chosen).collect();
                    c.push(*alt);
                    stack.push_back(c);
                }
            }
            first = false;
        }
        shard.count(&format!("dfs_schedules_scenario_{}", si), executed);
        // ---- seeded random priorities and uniform random beyond the bound
        let n_rand = ctx.scale(if ctx.thorough() { 1500 } else { 80 });
        for k in 0..n_rand {
            let strat = if k % 2 == 0 {
                Strategy::Pct { seed: rng.next(), depth: 1 + (k as usize / 2) % 4, expected_steps: if k % 2 == 0 { 60 } else { 130 } }
            } else {
                Strategy::Random { seed: rng.next() }
            };
            match execute(sc, Mode::Baton(strat), &path, &mut st) {
                Ok(out) => {
                    let choices: Vec<usize> = out.trace.decisions.iter().map(|d| d.chosen).collect();
                    handle(ctx, &mut shard, &mut st, sc, &out, if k % 2 == 0 { "pct" } else { "random" }, serde_json::json!({"kind": "schedule", "scenario": sc, "strategy": "prefix", "choices": choices}));
                }
                Err(e) => shard.inconclusive(e),
            }
        }
        // ---- free-running stress with seeded sleeps (kernel wait queues, writer preference)
        let n_free = ctx.scale(if ctx.thorough() { 400 } else { 25 });
        for _ in 0..n_free {
            let seed = rng.next();
            let max_us = *rng.pick(&[0u64, 50, 300, 2000]);
            match execute(sc, Mode::Free { seed, max_sleep_us: max_us }, &path, &mut st) {
                Ok(out) => handle(ctx, &mut shard, &mut st, sc, &out, "free-running", serde_json::json!({"kind": "schedule", "scenario": sc, "strategy": "free", "seed": seed})),
                Err(e) => shard.inconclusive(e),
            }
        }
        shard.set("scenarios", format!("{:?}", sc));
    }
    let _ = std::fs::remove_file(&path);
    shard.evaluations = st.executions;
    shard.distinct = st.distinct.clone();
    shard.nontrivial = st.nontrivial.clone();
    shard.count("executions", st.executions);
    shard.count("executions_starting_on_an_exactly_full_file", st.exactly_full_starts);
    shard.count("executions_starting_after_a_failed_remap(file_long,map_short)", st.failed_remap_starts);
    if prop == "C09" {
        shard.count("executions_with_a_client_panic_inside_an_open_write_transaction", st.client_panic_executions);
        shard.count("writer_begins_refused_after_the_client_panic(returned, did not hang)", st.writers_refused_after_client_panic);
    }
    shard.count("scheduling_decisions", st.decisions);
    shard.count("preemptions", st.preemptions);
    shard.count("workers_found_blocked_on_a_lock", st.blocked_detected);
    shard.count("reader_transactions_judged", st.reader_txs);
    shard.count("full_reads_by_readers", st.reader_dumps);
    shard.count("commits", st.commits);
    shard.count("readers_with>=1_commit_between_header_read_and_registration", st.window_1);
    shard.count("readers_with>=2_commits_between_header_read_and_registration", st.window_2);
    shard.count("readers_that_outlived_a_later_commit", st.readers_overlapping_commit);
    shard.count("writer/reader_pairs_checked_for_free_set_safety", st.invariant_pairs);
    shard.count("growing_commits", st.growth_commits);
    shard.count("committed_increments", st.increments);
    shard.count("free_running_executions", st.free_runs);
    shard.count("final_file_soundness_checks", st.final_checks);
    shard.exhaustive = Some(false);
    let _ = exhausted_all;
    shard.set("dfs_bound", format!("preemption bound {} ; exhausted within budget: {}", p_bound, exhausted_all));
    shard
}
