//! Small self-contained helpers: PRNG, hashing, panic capture, scratch dirs.
use std::cell::RefCell;
use std::path::{Path, PathBuf};

/// splitmix64 – deterministic everywhere, no dependency.
#[derive(Clone, Debug)]
pub struct Rng(pub u64);

impl Rng {
    pub fn new(seed: u64) -> Rng {
        Rng(seed ^ 0x9E37_79B9_7F4A_7C15)
    }
    pub fn next(&mut self) -> u64 {
        self.0 = self.0.wrapping_add(0x9E37_79B9_7F4A_7C15);
        let mut z = self.0;
        z = (z ^ (z >> 30)).wrapping_mul(0xBF58_476D_1CE4_E5B9);
        z = (z ^ (z >> 27)).wrapping_mul(0x94D0_49BB_1331_11EB);
        z ^ (z >> 31)
    }
    /// uniform in 0..n (n > 0)
    pub fn below(&mut self, n: u64) -> u64 {
        debug_assert!(n > 0);
        self.next() % n
    }
    pub fn usize(&mut self, n: usize) -> usize {
        self.below(n as u64) as usize
    }
    pub fn range(&mut self, lo: u64, hi_incl: u64) -> u64 {
        lo + self.below(hi_incl - lo + 1)
    }
    pub fn chance(&mut self, num: u64, den: u64) -> bool {
        self.below(den) < num
    }
    pub fn pick<'a, T>(&mut self, v: &'a [T]) -> &'a T {
        &v[self.usize(v.len())]
    }
    /// weighted choice; returns index
    pub fn weighted(&mut self, w: &[u32]) -> usize {
        let total: u64 = w.iter().map(|x| *x as u64).sum();
        let mut r = self.below(total.max(1));
        for (i, x) in w.iter().enumerate() {
            if r < *x as u64 {
                return i;
            }
            r -= *x as u64;
        }
        w.len() - 1
    }
    pub fn fork(&mut self) -> Rng {
        Rng::new(self.next())
    }
}

/// FNV-1a 64 over bytes (used for de-duplication of cases, not for security).
pub fn fnv64(data: &[u8]) -> u64 {
    let mut h: u64 = 0xcbf2_9ce4_8422_2325;
    for b in data {
        h ^= *b as u64;
        h = h.wrapping_mul(0x0000_0100_0000_01b3);
    }
    h
}

pub fn fnv64_more(mut h: u64, data: &[u8]) -> u64 {
    for b in data {
        h ^= *b as u64;
        h = h.wrapping_mul(0x0000_0100_0000_01b3);
    }
    h
}

/// 128-bit content fingerprint of a byte string (two independent 64-bit mixes).
pub fn fingerprint(data: &[u8]) -> (u64, u64) {
    let a = fnv64(data);
    // second: a multiply-xorshift hash over 8-byte words
    let mut h: u64 = 0x1234_5678_9abc_def1 ^ (data.len() as u64);
    let mut chunks = data.chunks_exact(8);
    for c in &mut chunks {
        let w = u64::from_le_bytes(c.try_into().unwrap());
        h = (h ^ w).wrapping_mul(0x9FB2_1C65_1E98_DF25);
        h ^= h >> 29;
    }
    let mut tail = [0u8; 8];
    let rem = chunks.remainder();
    tail[..rem.len()].copy_from_slice(rem);
    h = (h ^ u64::from_le_bytes(tail)).wrapping_mul(0x9FB2_1C65_1E98_DF25);
    h ^= h >> 32;
    (a, h)
}

pub fn hex(b: &[u8]) -> String {
    let mut s = String::with_capacity(b.len() * 2);
    for x in b {
        s.push_str(&format!("{:02x}", x));
    }
    s
}

/// Short printable rendering of a byte string for evidence / replay files.
pub fn show(b: &[u8]) -> String {
    if b.len() <= 24 {
        if b.iter().all(|c| c.is_ascii_graphic()) && !b.is_empty() {
            return format!("'{}'", String::from_utf8_lossy(b));
        }
        return format!("x{}", hex(b));
    }
    format!("x{}..({}B,#{:08x})", hex(&b[..8]), b.len(), fnv64(b) as u32)
}

// ---------------------------------------------------------------------------
// panic capture

#[derive(Clone, Debug, Default)]
pub struct PanicInfo {
    pub file: String,
    pub line: u32,
    pub msg: String,
}

thread_local! {
    static LAST_PANIC: RefCell<Option<PanicInfo>> = RefCell::new(None);
    static QUIET: RefCell<u32> = RefCell::new(0);
}

/// Install a panic hook that records location + message in a thread local and
/// stays silent while `quiet_panics(true)` is in effect on that thread.
pub fn install_panic_hook() {
    let default = std::panic::take_hook();
    std::panic::set_hook(Box::new(move |info| {
        let msg = if let Some(s) = info.payload().downcast_ref::<&str>() {
            s.to_string()
        } else if let Some(s) = info.payload().downcast_ref::<String>() {
            s.clone()
        } else {
            "<non-string panic>".to_string()
        };
        let (file, line) = info
            .location()
            .map(|l| (l.file().to_string(), l.line()))
            .unwrap_or_default();
        LAST_PANIC.with(|p| {
            *p.borrow_mut() = Some(PanicInfo {
                file: file.clone(),
                line,
                msg: msg.clone(),
            })
        });
        let quiet = QUIET.with(|q| *q.borrow());
        if quiet == 0 {
            default(info);
        }
    }));
}

pub fn quiet_panics(on: bool) {
    QUIET.with(|q| {
        let mut q = q.borrow_mut();
        if on {
            *q += 1;
        } else {
            *q = q.saturating_sub(1);
        }
    });
}

pub fn take_panic() -> Option<PanicInfo> {
    LAST_PANIC.with(|p| p.borrow_mut().take())
}

/// Run `f`, catching a panic; returns Err(info) on panic.
pub fn catch<R>(f: impl FnOnce() -> R) -> Result<R, PanicInfo> {
    let _ = take_panic();
    quiet_panics(true);
    let r = std::panic::catch_unwind(std::panic::AssertUnwindSafe(f));
    quiet_panics(false);
    match r {
        Ok(v) => Ok(v),
        Err(_) => Err(take_panic().unwrap_or_default()),
    }
}

/// Normalise a panic for use in a finding signature: path relative to the
/// repository, digits in the message replaced.
pub fn panic_signature(p: &PanicInfo) -> String {
    let file = p
        .file
        .rsplit_once("/repo/")
        .map(|x| x.1.to_string())
        .unwrap_or_else(|| p.file.clone());
    let mut msg = String::new();
    let mut last_digit = false;
    for c in p.msg.chars().take(100) {
        if c.is_ascii_digit() {
            if !last_digit {
                msg.push('N');
            }
            last_digit = true;
        } else {
            last_digit = false;
            msg.push(if c == '\n' { ' ' } else { c });
        }
    }
    // line numbers shift with unrelated edits; the signature keeps the file and message
    format!("panic@{}:{}", file, msg)
}

// ---------------------------------------------------------------------------
// scratch directories

pub fn scratch_root() -> PathBuf {
    if let Ok(d) = std::env::var("VERIF_SCRATCH") {
        return PathBuf::from(d);
    }
    let shm = Path::new("/dev/shm");
    if shm.is_dir() {
        return shm.to_path_buf();
    }
    std::env::temp_dir()
}

pub struct Scratch {
    pub dir: PathBuf,
    n: std::sync::atomic::AtomicU64,
}

impl Scratch {
    pub fn new(tag: &str) -> Scratch {
        let dir = scratch_root().join(format!(
            "vh-{}-{}-{:x}",
            tag,
            std::process::id(),
            std::time::SystemTime::now()
                .duration_since(std::time::UNIX_EPOCH)
                .map(|d| d.subsec_nanos())
                .unwrap_or(0)
        ));
        std::fs::create_dir_all(&dir).expect("create scratch dir");
        Scratch {
            dir,
            n: std::sync::atomic::AtomicU64::new(0),
        }
    }
    /// A fresh path that does not exist yet.
    pub fn fresh(&self, stem: &str) -> PathBuf {
        let i = self.n.fetch_add(1, std::sync::atomic::Ordering::SeqCst);
        self.dir.join(format!("{}-{}.db", stem, i))
    }
    pub fn path(&self, name: &str) -> PathBuf {
        self.dir.join(name)
    }
}

impl Drop for Scratch {
    fn drop(&mut self) {
        let _ = std::fs::remove_dir_all(&self.dir);
    }
}

pub fn now_s() -> f64 {
    std::time::SystemTime::now()
        .duration_since(std::time::UNIX_EPOCH)
        .map(|d| d.as_secs_f64())
        .unwrap_or(0.0)
}
