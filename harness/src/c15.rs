//! C15 – files written by earlier versions stay readable.  Golden files
//! produced from the pinned tree (and their legacy-header rewrites) must open
//! under the current code with the manifest's contents, accept further
//! commits, refuse a wrong page size without being modified; files written by
//! the current code from the same logical history must parse, with the
//! independent reader that encodes the pinned layout, to the same contents.
use crate::exec::{self, ExecCfg, Run};
use crate::fileck;
use crate::model::{Entry, MBucket};
use crate::ops::*;
use crate::report::{Ctx, Shard};
use crate::util::{self, Scratch};
use std::path::{Path, PathBuf};

fn unhex(s: &str) -> Vec<u8> {
    (0..s.len() / 2).map(|i| u8::from_str_radix(&s[2 * i..2 * i + 2], 16).unwrap_or(0)).collect()
}

pub fn manifest_bucket(v: &serde_json::Value) -> MBucket {
    let mut b = MBucket { next_int: v["next_int"].as_u64().unwrap_or(0), ..Default::default() };
    if let Some(m) = v["entries"].as_object() {
        for (k, e) in m {
            if let Some(val) = e.get("v") {
                b.entries.insert(unhex(k), Entry::Val(unhex(val.as_str().unwrap_or(""))));
            } else if let Some(nb) = e.get("b") {
                b.entries.insert(unhex(k), Entry::Bucket(manifest_bucket(nb)));
            }
        }
    }
    b
}

/// The logical history golden-gen.rs executed, as a harness history.
pub fn golden_history(ps: u64, num_pages: usize) -> History {
    let p = ps as usize;
    let lit = |s: String| K::lit(s.as_bytes());
    let put = |h: H, k: K, tag: u64, len: usize| Op::Put { h, k, v: V { tag, len }, how: How::Slice, vhow: How::Slice };
    let mut t1 = vec![Op::TxCreate { k: K::lit(b"alpha"), how: How::Slice }]; // h0
    for i in 0..60u64 {
        t1.push(put(0, lit(format!("key{:04}", i)), 100 + i, 100 + (i as usize * 7) % 200));
    }
    t1.push(Op::Create { h: 0, k: K::lit(b"inner"), how: How::Slice }); // h1
    for i in 0..10u64 {
        t1.push(put(1, lit(format!("in{:02}", i)), 200 + i, 40));
    }
    t1.push(Op::Create { h: 1, k: K::lit(b"deep"), how: How::Slice }); // h2
    for i in 0..3u64 {
        t1.push(put(2, K::lit(&[i as u8; 4]), 300 + i, 12));
    }
    t1.push(Op::TxCreate { k: K::lit(b"blobs"), how: How::Slice }); // h3
    t1.push(put(3, K::lit(b"three-pages"), 400, 3 * p));
    t1.push(put(3, K::lit(b"ten-pages"), 401, 10 * p + 17));
    t1.push(put(3, K::lit(b""), 402, 5));
    t1.push(put(3, K::lit(b"empty-value"), 0, 0));
    t1.push(Op::TxCreate { k: K::lit(b"to-delete"), how: How::Slice }); // h4
    for i in 0..12u64 {
        t1.push(put(4, lit(format!("g{:02}", i)), 500 + i, p / 3));
    }
    t1.push(Op::TxCreate { k: K::lit(b"empty-bucket"), how: How::Slice });
    let mut t2 = vec![Op::TxGet { k: K::lit(b"alpha"), how: How::Slice }];
    for i in (0..60u64).step_by(3) {
        t2.push(put(0, lit(format!("key{:04}", i)), 600 + i, 150));
    }
    t2.push(put(0, K { pre: vec![], fill: 0, post: vec![b'L'; p + p / 2] }, 650, 33));
    let mut t3 = vec![Op::TxDelete { k: K::lit(b"to-delete"), how: How::Slice }, Op::TxGet { k: K::lit(b"alpha"), how: How::Slice }];
    for i in [5u64, 17, 29] {
        t3.push(Op::Delete { h: 0, k: lit(format!("key{:04}", i)) });
    }
    let tx = |ops: Vec<Op>| TxScript { ops, end: End::Commit, reopen: false };
    History { pagesize: ps, num_pages, strict: false, populate: false, txs: vec![tx(t1), tx(t2), tx(t3)], origin: format!("golden history at page size {}", ps), pins: vec![] }
}

pub fn follow_ups(extra: usize, ps: u64) -> Vec<TxScript> {
    let put = |h: H, k: &str, tag: u64, len: usize| Op::Put { h, k: K::lit(k.as_bytes()), v: V { tag, len }, how: How::Slice, vhow: How::Slice };
    let mut v = scripted_follow_ups();
    // a long tail of small and medium commits: the free list is consumed, refilled and rewritten at
    // every length on the way, values of many sizes (including exact page multiples) are written
    let p = ps as usize;
    for i in 0..extra {
        let mut ops = vec![Op::TxGet { k: K::lit(b"alpha"), how: How::Slice }];
        let len = match i % 6 {
            0 => (i * 37) % 600,
            1 => p - 64 + (i % 9) * 8,
            2 => 2 * p + (i % 16) * 8,
            3 => 8 + (i % 11) * 8,
            4 => p / 2 + i,
            _ => 3 * p + 128 - (i % 5) * 64,
        };
        ops.push(put(0, &format!("fu{:02}", i % 9), 20_000 + i as u64, len));
        if i % 3 == 1 {
            ops.push(Op::Delete { h: 0, k: K::lit(format!("fu{:02}", (i + 4) % 9).as_bytes()) });
        }
        if i % 5 == 2 {
            ops.push(Op::TxGetOrCreate { k: K::lit(b"tmp"), how: How::Slice });
            for j in 0..(3 + i % 4) {
                ops.push(put(1, &format!("t{}", j), 30_000 + (i * 10 + j) as u64, 40 + 90 * j));
            }
        }
        if i % 5 == 4 {
            ops.push(Op::TxDelete { k: K::lit(b"tmp"), how: How::Slice });
        }
        v.push(TxScript { ops, end: if i % 13 == 7 { End::Rollback } else { End::Commit }, reopen: i % 8 == 5 });
    }
    v
}

fn scripted_follow_ups() -> Vec<TxScript> {
    let put = |h: H, k: &str, tag: u64, len: usize| Op::Put { h, k: K::lit(k.as_bytes()), v: V { tag, len }, how: How::Slice, vhow: How::Slice };
    vec![
        TxScript { ops: vec![Op::TxGet { k: K::lit(b"alpha"), how: How::Slice }, put(0, "key0001", 9001, 500), put(0, "new-key", 9002, 64), Op::Delete { h: 0, k: K::lit(b"key0002") }], end: End::Commit, reopen: false },
        TxScript { ops: vec![Op::TxGet { k: K::lit(b"blobs"), how: How::Slice }, Op::Delete { h: 0, k: K::lit(b"ten-pages") }, put(0, "again", 9003, 3000), Op::TxCreate { k: K::lit(b"later"), how: How::Slice }, put(1, "x", 9004, 10)], end: End::Commit, reopen: true },
        TxScript { ops: vec![Op::TxGet { k: K::lit(b"alpha"), how: How::Slice }, Op::GetB { h: 0, k: K::lit(b"inner"), how: How::Slice }, Op::DeleteB { h: 1, k: K::lit(b"deep"), how: How::Slice }, put(1, "in99", 9005, 2000)], end: End::Commit, reopen: true },
    ]
}

/// A copy of a pinned-format file in which every byte the pinned release leaves uninitialised
/// (page-header padding after the type byte, leaf-element padding after the entry type) is
/// replaced by seeded garbage: the pinned code writes whatever the allocator held there, so such a
/// file is indistinguishable from one it could have produced.
fn fuzz_padding(bytes: &[u8], ps: u64, seed: u64) -> Vec<u8> {
    let mut out = bytes.to_vec();
    let rep = fileck::check(bytes, ps);
    let mut rng = crate::util::Rng::new(seed);
    for (page, ty, count) in &rep.heads {
        let base = (*page * ps) as usize;
        for o in 9..16 {
            out[base + o] = rng.below(256) as u8;
        }
        if *ty == fileck::T_LEAF {
            for i in 0..*count as usize {
                let e = base + fileck::PAYLOAD + i * fileck::LEAF_ELEM;
                for o in 1..8 {
                    if e + o < out.len() {
                        out[e + o] = rng.below(256) as u8;
                    }
                }
            }
        }
    }
    out
}

/// Rewrite both header records into the legacy (<= 0.10) format: same nine fields, followed by the
/// SHA3-256 of their big-endian encodings (the Rust twin of golden/legacy.py).
pub fn to_legacy(bytes: &[u8], ps: u64) -> Vec<u8> {
    use sha3::{Digest, Sha3_256};
    let mut out = bytes.to_vec();
    for slot in 0..2usize {
        let base = slot * ps as usize + 32;
        if base + 96 > out.len() {
            continue;
        }
        let mut be = Vec::with_capacity(60);
        for i in 0..3 {
            let v = u32::from_le_bytes(out[base + 4 * i..base + 4 * i + 4].try_into().unwrap());
            be.extend_from_slice(&v.to_be_bytes());
        }
        for i in 0..6 {
            let v = u64::from_le_bytes(out[base + 16 + 8 * i..base + 24 + 8 * i].try_into().unwrap());
            be.extend_from_slice(&v.to_be_bytes());
        }
        let mut h = Sha3_256::new();
        h.update(&be);
        let d = h.finalize();
        out[base + 64..base + 96].copy_from_slice(&d[..]);
    }
    out
}

/// Every other page size (multiples of 8 up to 8 KiB, plus large powers of two) must be refused and
/// must leave the file untouched.  Returns the number of refused opens.
fn sweep_wrong_sizes(ctx: &Ctx, shard: &mut Shard, path: &Path, bytes: &[u8], ps: u64, what: &str, stride: usize) -> u64 {
    let mut refused = 0;
    let mut sizes: Vec<u64> = (128..=1024u64).map(|k| k * 8).step_by(stride).collect();
    sizes.extend([12288u64, 16384, 32768, 65536]);
    // requests that are NOT a multiple of 8 right next to the real size (a builder that rounds a request
    // instead of refusing it would open the file with them), and next to other common sizes
    for d in 1..8u64 {
        sizes.push(ps - d);
        sizes.push(ps + d);
    }
    sizes.extend([ps - 9, ps + 9, ps / 2 + 1, 2 * ps - 1, 4095, 4097, 1025]);
    for other in sizes {
        crate::report::progress();
        if other == ps {
            continue;
        }
        let ho = History { pagesize: other, num_pages: 8, strict: false, populate: false, txs: vec![], origin: String::new(), pins: vec![] };
        let r = util::catch(|| exec::open_db(path, &ho).map(|db| db.pagesize()));
        let accepted = matches!(&r, Ok(Ok(_)));
        let replay = serde_json::json!({"kind": "wrong-pagesize", "file": what, "pagesize": ps, "opened_with": other});
        if accepted {
            shard.violation(ctx, "pagesize-mismatch:not-refused", &format!("{} (page size {}) was opened with page size {} and accepted", what, ps, other), &replay);
        } else {
            refused += 1;
        }
        if std::fs::read(path).map(|b| b != bytes).unwrap_or(true) {
            shard.violation(ctx, "pagesize-mismatch:file-modified", &format!("opening {} (page size {}) with page size {} changed the file's bytes", what, ps, other), &replay);
            let _ = std::fs::write(path, bytes);
        }
    }
    refused
}

#[derive(Default)]
struct St {
    files: u64,
    opens_verified: u64,
    followup_commits: u64,
    mismatched_sizes_refused: u64,
    fileck_golden: u64,
    produced_files_parsed: u64,
    legacy_files: u64,
    header_pair_checks: u64,
    fuzzed_padding_files: u64,
    small_file_mismatches_refused: u64,
    wide_sweep_refused: u64,
    legacy_commit_count_files: u64,
    walk_commits: u64,
    walk_reopens: u64,
    exact_fill_hits: u64,
    exact_fill_commits: u64,
    rootdir_files: u64,
    quirk_files: u64,
}

fn check_file(ctx: &Ctx, shard: &mut Shard, st: &mut St, golden: &Path, ps: u64, legacy: bool, manifest: &MBucket, scratch: &Scratch) {
    check_file_with(ctx, shard, st, golden, ps, legacy, manifest, scratch, false, None)
}

/// `dup_free_ok`: the file comes from the pinned release's double-free quirk - its free list repeats
/// page ids, which the independent reader reports and which is tolerated for THIS file only.
#[allow(clippy::too_many_arguments)]
fn check_file_with(ctx: &Ctx, shard: &mut Shard, st: &mut St, golden: &Path, ps: u64, legacy: bool, manifest: &MBucket, scratch: &Scratch, dup_free_ok: bool, fus: Option<Vec<TxScript>>) {
    let label = format!("{} format, page size {}", if legacy { "legacy" } else { "current" }, ps);
    let bytes = match std::fs::read(golden) {
        Ok(b) => b,
        Err(e) => {
            shard.inconclusive(format!("cannot read {}: {}", golden.display(), e));
            return;
        }
    };
    st.files += 1;
    if legacy {
        st.legacy_files += 1;
    }
    let replay = serde_json::json!({"kind": "golden", "pagesize": ps, "legacy": legacy});
    // 0. the independent reader itself against the pinned code's own manifest
    let rep = fileck::check(&bytes, ps);
    st.fileck_golden += 1;
    let real_errors: Vec<&String> = rep.errors.iter().filter(|e| !(dup_free_ok && (e.contains("listed twice") || e.contains("roles")))).collect();
    if !real_errors.is_empty() {
        shard.violation(ctx, "golden:independent-reader-rejects-pinned-file", &format!("[{}] {}", label, real_errors[0]), &replay);
    } else if let Some(d) = rep.contents.diff(manifest, false) {
        shard.violation(ctx, "golden:independent-reader-disagrees-with-manifest", &format!("[{}] {}", label, d), &replay);
    }
    if rep.meta.as_ref().map(|m| m.legacy) != Some(legacy) {
        shard.inconclusive(format!("[{}] header format of the golden file is not what the check expected", label));
    }
    // 1. open with the current code and read everything
    let path = scratch.fresh("golden");
    std::fs::write(&path, &bytes).expect("copy golden file");
    let h = History { pagesize: ps, num_pages: 32, strict: false, populate: false, txs: vec![], origin: label.clone(), pins: vec![] };
    let r = util::catch(|| -> Result<(), (String, String)> {
        let db = exec::open_db(&path, &h).map_err(|e| ("golden:open-fails".to_string(), format!("[{}] open: {}", label, e)))?;
        {
            let tx = db.tx(false).map_err(|e| ("golden:open-fails".to_string(), format!("[{}] tx: {}", label, e)))?;
            if let Some(d) = exec::verify_tx_against(&tx, manifest, true) {
                return Err((format!("golden:contents-differ:{}", exec::classify_diff(&d)), format!("[{}] contents differ from the manifest written by the pinned release: {}", label, d)));
            }
        }
        st.opens_verified += 1;
        if !dup_free_ok {
            // (the built-in check rightly complains about a free list with repeated ids; the file must
            // still open, read and take commits - after the first of which the check must pass again)
            db.check().map_err(|e| ("golden:db-check-fails".to_string(), format!("[{}] DB::check on the golden file: {}", label, e)))?;
        }
        Ok(())
    });
    match r {
        Ok(Ok(())) => {}
        Ok(Err((sig, d))) => {
            shard.violation(ctx, &sig, &d, &replay);
            return;
        }
        Err(p) => {
            shard.violation(ctx, &format!("golden:open-{}", util::panic_signature(&p)), &format!("[{}] panic at {}:{}: {}", label, p.file, p.line, p.msg), &replay);
            return;
        }
    }
    // opening (and reading) must not have modified the golden file
    if std::fs::read(&path).map(|b| b != bytes).unwrap_or(true) {
        shard.violation(ctx, "golden:open-modified-the-file", &format!("[{}] opening and reading changed the file's bytes", label), &replay);
    }
    // 2. further commits, reopen, soundness
    let cfg = ExecCfg { verify_after_commit: true, fileck_each_commit: true, ..Default::default() };
    let mut run = Run::new(&cfg, ps);
    let mut model = manifest.clone();
    let r = util::catch(|| -> Result<(), String> {
        let mut db = exec::open_db(&path, &h).map_err(|e| e.to_string())?;
        let n_extra = if ctx.thorough() { 240 } else { 48 };
        let scripts = fus.clone().unwrap_or_else(|| follow_ups(n_extra, ps));
        for (i, t) in scripts.iter().enumerate() {
            exec::exec_tx(&mut run, &db, &path, t, i, &mut model);
            if run.out.aborted {
                break;
            }
            if t.end == End::Commit {
                st.followup_commits += 1;
                // the two header pages alternate: after a commit the other page still holds the commit before it
                // (also on a file whose headers another version wrote - its next commit must replace the OLDER one)
                let head = crate::snap::read_prefix(&path, 2 * ps);
                let ids: Vec<Option<u64>> = (0..2u64).map(|sl| fileck::parse_meta(&head, ps, sl).or_else(|| fileck::parse_meta_legacy(&head, ps, sl)).map(|m| m.tx_id)).collect();
                st.header_pair_checks += 1;
                match (ids[0], ids[1]) {
                    (Some(a), Some(b)) if a.abs_diff(b) == 1 => {}
                    _ => return Err(format!("after further commit {}: the two header pages hold transactions {:?} and {:?} (expected two valid headers of consecutive commits)", i, ids[0], ids[1])),
                }
            }
            if t.reopen {
                drop(db);
                db = exec::open_db(&path, &h).map_err(|e| format!("reopen after commit {}: {}", i, e))?;
                let tx = db.tx(false).map_err(|e| e.to_string())?;
                if let Some(d) = exec::verify_tx_against(&tx, &model, false) {
                    return Err(format!("after commit {} and reopen: {}", i, d));
                }
            }
        }
        Ok(())
    });
    match r {
        Ok(Ok(())) => {}
        Ok(Err(e)) => shard.violation(ctx, if e.contains("two header pages hold") { "golden:further-commits:header-pages-do-not-alternate" } else { "golden:further-commits:reopen" }, &format!("[{}] {}", label, e), &replay),
        Err(p) => shard.violation(ctx, &format!("golden:further-commits-{}", util::panic_signature(&p)), &format!("[{}] panic at {}:{}: {}", label, p.file, p.line, p.msg), &replay),
    }
    if let Some(v) = run.out.violations.first() {
        shard.violation(ctx, &format!("golden:further-commits:{}", v.sig), &format!("[{}] {}", label, v.detail), &replay);
    }
    // after a commit by the current code the newest header must be in the current format
    if let Ok(b) = std::fs::read(&path) {
        let (m, _) = fileck::choose_meta(&b, ps);
        if m.map(|m| m.legacy).unwrap_or(true) {
            shard.violation(ctx, "golden:newest-header-not-current-format", &format!("[{}] after commits by the current code the newest header is not a current-format header", label), &replay);
        }
    }
    // 3. every mismatching page size is refused and leaves the file alone
    std::fs::write(&path, &bytes).expect("restore golden file");
    for other in [1024u64, 2048, 4096, 5000, 8192, 16384, 65536] {
        if other == ps {
            continue;
        }
        let ho = History { pagesize: other, ..h.clone() };
        let r = util::catch(|| exec::open_db(&path, &ho).map(|db| db.tx(false).map(|tx| exec::dump_tx(&tx).is_ok()).unwrap_or(false)));
        let refused = match &r {
            Err(_) => true,
            Ok(Err(_)) => true,
            Ok(Ok(_)) => false,
        };
        if !refused {
            shard.violation(ctx, "pagesize-mismatch:not-refused", &format!("[{}] opening with page size {} was accepted", label, other), &replay);
        } else {
            st.mismatched_sizes_refused += 1;
        }
        if std::fs::read(&path).map(|b| b != bytes).unwrap_or(true) {
            shard.violation(ctx, "pagesize-mismatch:file-modified", &format!("[{}] a refused open with page size {} changed the file's bytes", label, other), &replay);
            std::fs::write(&path, &bytes).expect("restore golden file");
        }
    }
    let _ = std::fs::remove_file(&path);
}

/// Steer the on-disk free list to the lengths at which it EXACTLY fills its page run and check that such
/// a file - perfectly conformant, but rare - opens again.  With a reader held open every freed page stays
/// pending and the new free-list block is appended at the high-water mark, so the list written to the
/// file is exactly as long as it was sized; transactions touching 0..3 buckets free different numbers of
/// pages, which is used to land on the capacity exactly.  Returns (exact-fill files reopened, commits).
fn exact_fill_probe(ctx: &Ctx, shard: &mut Shard, ps: u64, scratch: &Scratch, want_hits: u64) -> (u64, u64) {
    use jammdb::OpenOptions;
    let path = scratch.fresh("fill");
    let copy = scratch.fresh("fillcopy");
    let mut hits = 0u64;
    let mut commits = 0u64;
    let r = util::catch(|| -> Result<(), (String, String)> {
        let e = |w: &str, e: jammdb::Error| ("layout:exact-fill:setup".to_string(), format!("{}: {}", w, e));
        let db = OpenOptions::new().pagesize(ps).num_pages(6000).open(&path).map_err(|x| e("open", x))?;
        let names = ["f0", "f1", "f2"];
        {
            let tx = db.tx(true).map_err(|x| e("tx", x))?;
            for n in names {
                let b = tx.create_bucket(n).map_err(|x| e("create", x))?;
                b.put("k", vec![1u8; 20]).map_err(|x| e("put", x))?;
            }
            tx.commit().map_err(|x| e("commit", x))?;
        }
        let mut model: std::collections::BTreeMap<(usize, u64), Vec<u8>> = Default::default();
        let reader = db.tx(false).map_err(|x| e("reader", x))?;
        crate::c03::forbid_grow(true);
        // pages freed by a transaction that touches k buckets, as last observed
        let mut inc: [i64; 4] = [1, 3, 4, 5];
        let mut last_n: i64 = -1;
        for i in 0..1500u64 {
            crate::report::progress();
            let bytes = std::fs::read(&path).map_err(|x| ("layout:exact-fill:setup".to_string(), x.to_string()))?;
            let head = &bytes[..(2 * ps as usize).min(bytes.len())];
            let (m, _) = fileck::choose_meta(head, ps);
            let m = match m { Some(m) => m, None => return Err(("layout:exact-fill:no-valid-header".into(), "no valid header after a commit".into())) };
            let rep = fileck::check(&bytes[..((m.num_pages * ps) as usize).min(bytes.len())], ps);
            let n = rep.free_entries.len() as i64;
            let cap = ((rep.freelist_run.len() as u64 * ps).saturating_sub(40) / 8) as i64;
            if n == cap && cap > 0 {
                // this exact image must open, read back, check and take one more commit
                std::fs::write(&copy, &bytes).map_err(|x| ("layout:exact-fill:setup".to_string(), x.to_string()))?;
                let what = format!("file whose free list of {} entries exactly fills its {} page(s) at page size {}", n, rep.freelist_run.len(), ps);
                let db2 = OpenOptions::new().pagesize(ps).num_pages(6000).open(&copy).map_err(|x| ("layout:exact-fill:open-fails".to_string(), format!("{}: open: {}", what, x)))?;
                {
                    let tx = db2.tx(false).map_err(|x| ("layout:exact-fill:open-fails".to_string(), format!("{}: tx: {}", what, x)))?;
                    for ((bi, k), v) in &model {
                        let b = tx.get_bucket(names[*bi]).map_err(|x| ("layout:exact-fill:contents".to_string(), format!("{}: {}", what, x)))?;
                        if b.get_kv(k.to_be_bytes()).map(|kv| kv.value().to_vec()).as_ref() != Some(v) {
                            return Err(("layout:exact-fill:contents".into(), format!("{}: a value reads back differently after reopening", what)));
                        }
                    }
                }
                db2.check().map_err(|x| ("layout:exact-fill:db-check".to_string(), format!("{}: DB::check: {}", what, x)))?;
                {
                    let tx = db2.tx(true).map_err(|x| ("layout:exact-fill:cannot-continue".to_string(), format!("{}: {}", what, x)))?;
                    tx.get_or_create_bucket("after").and_then(|b| b.put("k", "v").map(|_| ())).map_err(|x| ("layout:exact-fill:cannot-continue".to_string(), format!("{}: {}", what, x)))?;
                    tx.commit().map_err(|x| ("layout:exact-fill:cannot-continue".to_string(), format!("{}: commit: {}", what, x)))?;
                }
                db2.check().map_err(|x| ("layout:exact-fill:db-check".to_string(), format!("{}: DB::check after one more commit: {}", what, x)))?;
                drop(db2);
                hits += 1;
                shard.set("exact_fill_files_reopened", format!("{} entries in {} page(s), page size {}", n, rep.freelist_run.len(), ps));
                if hits >= want_hits {
                    break;
                }
            }
            // choose how many buckets the next transaction touches so as to land on the capacity
            let d = cap - n;
            let mut k = 3usize;
            if d > 0 {
                let mut best = 0usize;
                for (kk, step) in inc.iter().enumerate() {
                    if *step <= d && *step >= inc[best] {
                        best = kk;
                    }
                }
                k = if inc[best] <= d { best } else { 0 };
            }
            let tx = db.tx(true).map_err(|x| e("tx", x))?;
            for bi in 0..k {
                let b = tx.get_bucket(names[bi]).map_err(|x| e("get", x))?;
                let key = i % 5;
                let v = vec![(i % 251) as u8; 10 + (i % 7) as usize];
                b.put(key.to_be_bytes(), v.clone()).map_err(|x| e("put", x))?;
                model.insert((bi, key), v);
            }
            tx.commit().map_err(|x| ("layout:exact-fill:commit-fails".to_string(), format!("commit #{} with a reader open: {}", i, x)))?;
            commits += 1;
            if last_n >= 0 {
                let after = std::fs::read(&path).ok().and_then(|b| {
                    let (m, _) = fileck::choose_meta(&b[..(2 * ps as usize).min(b.len())], ps);
                    m.map(|m| fileck::check(&b[..((m.num_pages * ps) as usize).min(b.len())], ps).free_entries.len() as i64)
                });
                if let Some(a) = after {
                    if a - n > 0 && a - n < 40 {
                        inc[k] = a - n;
                    }
                }
            }
            last_n = n;
        }
        crate::c03::forbid_grow(false);
        drop(reader);
        Ok(())
    });
    crate::c03::forbid_grow(false);
    let _ = std::fs::remove_file(&path);
    let _ = std::fs::remove_file(&copy);
    match r {
        Ok(Ok(())) => {}
        Ok(Err((sig, d))) if sig.ends_with(":setup") => shard.inconclusive(d),
        Ok(Err((sig, d))) => shard.violation(ctx, &sig, &d, &serde_json::json!({"kind": "exact-fill", "pagesize": ps})),
        Err(p) if p.msg.contains(crate::c03::GROW_MSG) => shard.inconclusive("exact-fill probe: the pre-sized file was too small".into()),
        Err(p) => shard.violation(ctx, &format!("layout:exact-fill:{}", util::panic_signature(&p)), &format!("panic at {}:{}: {}", p.file, p.line, p.msg), &serde_json::json!({"kind": "exact-fill", "pagesize": ps})),
    }
    (hits, commits)
}

pub fn run(ctx: &Ctx) -> Shard {
    crate::c03::install_no_grow_handler();
    let mut shard = Shard::new("C15");
    let scratch = Scratch::new("C15");
    let dir = PathBuf::from(ctx.get("golden").unwrap_or("/verif/out/golden"));
    let mut st = St::default();
    let cur = std::env::var("VH_CURRENT").ok();
    let sizes = [(1024u64, 320usize), (4096, 96), (5000, 80), (16384, 56)];
    let mut idx = 0u64;
    for (ps, np) in sizes {
        let mpath = dir.join(format!("golden-{}.manifest.json", ps));
        let mdoc: serde_json::Value = match std::fs::read(&mpath).ok().and_then(|b| serde_json::from_slice(&b).ok()) {
            Some(d) => d,
            None => {
                shard.inconclusive(format!("manifest {} missing (run the driver, which unpacks /verif/golden)", mpath.display()));
                continue;
            }
        };
        let manifest = manifest_bucket(&mdoc["contents"]);
        for legacy in [false, true] {
            idx += 1;
            if idx % ctx.nshards != ctx.shard {
                continue;
            }
            let f = dir.join(if legacy { format!("legacy-{}.db", ps) } else { format!("golden-{}.db", ps) });
            if let Some(c) = &cur {
                let _ = std::fs::write(c, serde_json::to_vec(&serde_json::json!({"kind": "golden", "pagesize": ps, "legacy": legacy})).unwrap());
            }
            shard.evaluations += 1;
            let hh = util::fnv64(format!("{}|{}", ps, legacy).as_bytes());
            shard.distinct.insert(hh);
            shard.nontrivial.insert(hh);
            check_file(ctx, &mut shard, &mut st, &f, ps, legacy, &manifest, &scratch);
            shard.set("golden_files", format!("page size {} {} ({} entries)", ps, if legacy { "legacy header" } else { "current header" }, manifest.total_entries()));
        }
        // the same golden file with the bytes the pinned release never initialises set to garbage
        for variant in 0..2u64 {
            idx += 1;
            if idx % ctx.nshards != ctx.shard {
                continue;
            }
            let src = dir.join(format!("golden-{}.db", ps));
            if let Ok(bytes) = std::fs::read(&src) {
                let fz = fuzz_padding(&bytes, ps, ctx.seed.wrapping_mul(31).wrapping_add(variant).wrapping_add(ps));
                let fpath = scratch.path(&format!("fuzzed-{}-{}.db", ps, variant));
                std::fs::write(&fpath, &fz).expect("write fuzzed golden");
                shard.evaluations += 1;
                let hh = util::fnv64(format!("fuzzed|{}|{}", ps, variant).as_bytes());
                shard.distinct.insert(hh);
                shard.nontrivial.insert(hh);
                st.fuzzed_padding_files += 1;
                check_file(ctx, &mut shard, &mut st, &fpath, ps, false, &manifest, &scratch);
                let _ = std::fs::remove_file(&fpath);
            }
        }
        // files written by the current code from the same logical history conform to the pinned layout
        idx += 1;
        if idx % ctx.nshards == ctx.shard {
            let h = golden_history(ps, np);
            let path = scratch.fresh("produced");
            let out = exec::run_history(&h, &ExecCfg::default(), &path);
            shard.evaluations += 1;
            let hh = util::fnv64(format!("produced|{}", ps).as_bytes());
            shard.distinct.insert(hh);
            shard.nontrivial.insert(hh);
            let replay = serde_json::json!({"kind": "history", "history": h});
            if let Some(v) = out.violations.first() {
                // the current code cannot write (or read back) the golden history at a page size the
                // property quantifies over: no conforming file is produced
                shard.violation(ctx, &format!("layout:cannot-produce-golden-history:{}", v.sig), &format!("[page size {}] {}", ps, v.detail), &replay);
            } else if out.aborted {
                shard.inconclusive(format!("replaying the golden history at page size {} was cut short without a recorded disagreement", ps));
            } else if let Ok(bytes) = std::fs::read(&path) {
                let rep = fileck::check(&bytes, ps);
                st.produced_files_parsed += 1;
                if !rep.ok() {
                    shard.violation(ctx, "layout:produced-file-rejected-by-pinned-layout-reader", &format!("[page size {}] {}", ps, rep.errors[0]), &replay);
                } else if let Some(d) = rep.contents.diff(&manifest, false) {
                    shard.violation(ctx, "layout:produced-file-reads-differently", &format!("[page size {}] a file written by the current code from the golden history parses differently: {}", ps, d), &replay);
                }
            }
            let _ = std::fs::remove_file(&path);
            if shard.samples.len() < 2 {
                shard.sample(serde_json::json!({"golden_page_size": ps, "entries_in_manifest": manifest.total_entries(), "checks": ["independent reader vs manifest", "open + full read", "3 scripted + 48 (quick) / 240 (thorough) generated further transactions with reopen, rollback, fileck + DB::check after each commit", "7 mismatching page sizes refused, bytes unchanged", "same history written by current code parsed by the pinned-layout reader"]}));
            }
        }
    }
    // free lists of every length around "exactly fills its page(s)", written and read back by the current
    // code after every commit, and parsed by the pinned-layout reader (executor option fileck_each_commit)
    for (wi, (ps, index)) in [(1024u64, 2usize), (5000, 2), (1024, 3), (4096, 2)].iter().enumerate() {
        if (wi as u64 + 8) % ctx.nshards != ctx.shard || (!ctx.thorough() && wi >= 2) {
            continue;
        }
        if let Some(h) = crate::shape::freelist_walk_history(*ps, *index) {
            let path = scratch.fresh("walk");
            let out = exec::run_history(&h, &ExecCfg { verify_after_commit: true, fileck_each_commit: true, ..Default::default() }, &path);
            let _ = std::fs::remove_file(&path);
            shard.evaluations += 1;
            let hh = util::fnv64(format!("walk|{}|{}", ps, index).as_bytes());
            shard.distinct.insert(hh);
            shard.nontrivial.insert(hh);
            st.walk_commits += out.stats.commits;
            st.walk_reopens += out.stats.reopens;
            if let Some(v) = out.violations.first() {
                shard.violation(ctx, &format!("layout:free-list-walk:{}", v.sig), &format!("[page size {}] {} :: {}", ps, h.origin, v.detail), &serde_json::json!({"kind": "history", "history": h}));
            }
        }
    }
    // a file the pinned release wrote with its double-free quirk (free list with repeated ids), also with legacy headers
    for (qi, legacy) in [false, true].iter().enumerate() {
        if (qi as u64 + 4) % ctx.nshards != ctx.shard {
            continue;
        }
        let src = dir.join("quirk-dupfree-1024.db");
        let mdoc: Option<serde_json::Value> = std::fs::read(dir.join("quirk-dupfree-1024.manifest.json")).ok().and_then(|b| serde_json::from_slice(&b).ok());
        if let (Ok(bytes), Some(mdoc)) = (std::fs::read(&src), mdoc) {
            let manifest = manifest_bucket(&mdoc["contents"]);
            let bytes = if *legacy { to_legacy(&bytes, 1024) } else { bytes };
            let fpath = scratch.path(&format!("quirk-{}.db", qi));
            std::fs::write(&fpath, &bytes).expect("write quirk copy");
            let put = |h: H, k: &str, tag: u64, len: usize| Op::Put { h, k: K::lit(k.as_bytes()), v: V { tag, len }, how: How::Slice, vhow: How::Slice };
            let mut fus = Vec::new();
            for i in 0..12usize {
                let mut ops = vec![Op::TxGet { k: K::lit(b"keep"), how: How::Slice }, put(0, &format!("k{:03}", i), 40_000 + i as u64, 30 + 90 * (i % 5))];
                if i % 3 == 0 {
                    ops.push(Op::TxGetOrCreate { k: K::lit(b"outer"), how: How::Slice });
                    for j in 0..(4 + i) {
                        ops.push(put(1, &format!("o{:03}", j), 41_000 + (i * 20 + j) as u64, 250));
                    }
                }
                if i == 7 {
                    ops.push(Op::TxDelete { k: K::lit(b"outer"), how: How::Slice });
                }
                fus.push(TxScript { ops, end: End::Commit, reopen: i % 4 == 1 });
            }
            shard.evaluations += 1;
            let hh = util::fnv64(format!("quirk|{}", legacy).as_bytes());
            shard.distinct.insert(hh);
            shard.nontrivial.insert(hh);
            st.quirk_files += 1;
            check_file_with(ctx, &mut shard, &mut st, &fpath, 1024, *legacy, &manifest, &scratch, true, Some(fus));
            let _ = std::fs::remove_file(&fpath);
        } else {
            shard.inconclusive("quirk golden file or its manifest missing".into());
        }
    }
    // files whose root directory is a multi-page tree (the golden files have a handful of top-level buckets)
    for (ri, (ps, n)) in [(1024u64, 40usize), (4096, 150), (5000, 200), (16384, 600)].iter().enumerate() {
        if (ri as u64 + 2) % ctx.nshards != ctx.shard {
            continue;
        }
        let h = crate::shape::root_dir_history(*ps, *n, 3, n / 2);
        let path = scratch.fresh("rootdir");
        let out = exec::run_history(&h, &ExecCfg { verify_after_commit: true, fileck_each_commit: true, ..Default::default() }, &path);
        let _ = std::fs::remove_file(&path);
        shard.evaluations += 1;
        let hh = util::fnv64(format!("rootdir|{}|{}", ps, n).as_bytes());
        shard.distinct.insert(hh);
        shard.nontrivial.insert(hh);
        st.rootdir_files += 1;
        if let Some(v) = out.violations.first() {
            shard.violation(ctx, &format!("layout:multi-page-root-directory:{}", v.sig), &format!("[page size {}] {} :: {}", ps, h.origin, v.detail), &serde_json::json!({"kind": "history", "history": h}));
        }
    }
    // files whose free list exactly fills its page run
    for (pi, (ps, hits)) in [(1024u64, 2u64), (5000, 1), (4096, 1)].iter().enumerate() {
        if (pi as u64 + 13) % ctx.nshards != ctx.shard || (!ctx.thorough() && pi >= 2) {
            continue;
        }
        let (h, c) = exact_fill_probe(ctx, &mut shard, *ps, &scratch, *hits);
        shard.evaluations += 1;
        st.exact_fill_hits += h;
        st.exact_fill_commits += c;
    }
    // small files (never grown) opened with every other page size: refused, bytes unchanged
    for (si, (ps, np)) in [(1024u64, 8usize), (1024, 32), (4096, 4), (5000, 6), (2048, 16)].iter().enumerate() {
        if (si as u64 + 11) % ctx.nshards != ctx.shard {
            continue;
        }
        let mut h = golden_history(*ps, *np);
        h.txs.truncate(1);
        // keep it small: only the first 12 operations of the first transaction
        h.txs[0].ops.truncate(12);
        let path = scratch.fresh("small");
        let out = exec::run_history(&h, &ExecCfg::default(), &path);
        if let Some(v) = out.violations.first() {
            let replay = serde_json::json!({"kind": "history", "history": h});
            shard.violation(ctx, &format!("layout:cannot-produce-small-file:{}", v.sig), &format!("[{} x {} pages] {}", ps, np, v.detail), &replay);
            continue;
        }
        if out.aborted {
            shard.inconclusive(format!("could not build the small {}x{} file", ps, np));
            continue;
        }
        let bytes = std::fs::read(&path).unwrap_or_default();
        shard.evaluations += 1;
        let hh = util::fnv64(format!("small|{}|{}", ps, np).as_bytes());
        shard.distinct.insert(hh);
        shard.nontrivial.insert(hh);
        for other in [1024u64, 2048, 4096, 5000, 8192, 16384, 65536] {
            if other == *ps {
                continue;
            }
            let ho = History { pagesize: other, ..h.clone() };
            let r = util::catch(|| exec::open_db(&path, &ho).map(|db| db.tx(false).map(|tx| exec::dump_tx(&tx).is_ok()).unwrap_or(false)));
            let refused = !matches!(&r, Ok(Ok(_)));
            let replay = serde_json::json!({"kind": "small-file-mismatch", "pagesize": ps, "pages": np, "opened_with": other});
            if !refused {
                shard.violation(ctx, "pagesize-mismatch:not-refused", &format!("a {} x {} page file was opened with page size {} and accepted", ps, np, other), &replay);
            } else {
                st.small_file_mismatches_refused += 1;
            }
            if std::fs::read(&path).map(|b| b != bytes).unwrap_or(true) {
                shard.violation(ctx, "pagesize-mismatch:file-modified", &format!("opening a {} x {} page file with page size {} changed the file's bytes", ps, np, other), &replay);
                let _ = std::fs::write(&path, &bytes);
            }
        }
        // the same small file in both header formats against a wide sweep of wrong page sizes
        let stride = if ctx.thorough() { 1 } else { 4 };
        std::fs::write(&path, &bytes).expect("restore");
        st.wide_sweep_refused += sweep_wrong_sizes(ctx, &mut shard, &path, &bytes, *ps, &format!("a small current-format file ({} x {} pages)", ps, np), stride);
        let leg = to_legacy(&bytes, *ps);
        std::fs::write(&path, &leg).expect("write legacy");
        st.wide_sweep_refused += sweep_wrong_sizes(ctx, &mut shard, &path, &leg, *ps, &format!("a small legacy-format file ({} x {} pages)", ps, np), stride);
        let _ = std::fs::remove_file(&path);
    }
    // legacy-header files with 1..5 commits (so that the newest legacy header sits in slot 0 and in slot 1
    // in turn), made by writing the golden history's first transactions with the current code and
    // re-encoding both headers; each must open with the expected contents and accept further commits
    for (li, (ps, n_commits)) in [(1024u64, 1usize), (1024, 2), (1024, 3), (4096, 1), (4096, 2), (5000, 2), (5000, 3), (16384, 1), (1024, 4), (4096, 5)].iter().enumerate() {
        if (li as u64 + 6) % ctx.nshards != ctx.shard {
            continue;
        }
        let mut h = golden_history(*ps, 64);
        // pad / cut to the wanted number of commits
        let extra = TxScript { ops: vec![Op::TxGetOrCreate { k: K::lit(b"pad"), how: How::Slice }, Op::Put { h: 0, k: K::lit(b"p"), v: V { tag: 77, len: 20 }, how: How::Slice, vhow: How::Slice }], end: End::Commit, reopen: false };
        while h.txs.len() < *n_commits {
            h.txs.push(extra.clone());
        }
        h.txs.truncate(*n_commits);
        let path = scratch.fresh("leg");
        let out = exec::run_history(&h, &ExecCfg::default(), &path);
        if out.aborted || !out.violations.is_empty() {
            shard.inconclusive_or_workload(ctx, &format!("[{}-commit file at page size {}]", n_commits, ps), &crate::report::workload_failure(out.violations.first(), "could not build the file"), &serde_json::json!({"kind": "history", "history": h}));
            continue;
        }
        let mut model = MBucket::default();
        crate::c06::replay_model(&h, &mut model);
        let bytes = std::fs::read(&path).unwrap_or_default();
        let leg = to_legacy(&bytes, *ps);
        let lpath = scratch.path(&format!("legacy-{}-{}c.db", ps, n_commits));
        std::fs::write(&lpath, &leg).expect("write legacy");
        let _ = std::fs::remove_file(&path);
        shard.evaluations += 1;
        let hh = util::fnv64(format!("legacy-commits|{}|{}", ps, n_commits).as_bytes());
        shard.distinct.insert(hh);
        shard.nontrivial.insert(hh);
        let newest_slot = fileck::choose_meta(&leg, *ps).0.map(|m| m.slot);
        shard.set("legacy_files_by_commit_count(pagesize,commits,newest_slot)", format!("ps={} commits={} newest legacy header in slot {:?}", ps, n_commits, newest_slot));
        st.legacy_commit_count_files += 1;
        check_file(ctx, &mut shard, &mut st, &lpath, *ps, true, &model, &scratch);
        let _ = std::fs::remove_file(&lpath);
    }
    // golden files (mid-history free lists, stale pages) in the legacy format against the wide sweep
    for (gi, ps) in [1024u64, 4096, 5000, 16384].iter().enumerate() {
        if (gi as u64 + 3) % ctx.nshards != ctx.shard {
            continue;
        }
        if let Ok(bytes) = std::fs::read(dir.join(format!("legacy-{}.db", ps))) {
            let path = scratch.fresh("wide");
            std::fs::write(&path, &bytes).expect("copy");
            st.wide_sweep_refused += sweep_wrong_sizes(ctx, &mut shard, &path, &bytes, *ps, &format!("the legacy golden file of page size {}", ps), if ctx.thorough() { 1 } else { 2 });
            let _ = std::fs::remove_file(&path);
            shard.evaluations += 1;
        }
    }
    shard.count("wrong_page_sizes_refused_in_wide_sweep", st.wide_sweep_refused);
    shard.count("legacy_files_with_1_to_5_commits_checked", st.legacy_commit_count_files);
    shard.count("free_list_walk_commits(every length around a full page, reopened after each)", st.walk_commits);
    shard.count("free_list_walk_reopens", st.walk_reopens);
    shard.count("files_with_a_multi_page_root_directory_written_reopened_and_parsed", st.rootdir_files);
    shard.count("pinned_release_files_with_repeated_free_list_ids_checked", st.quirk_files);
    shard.count("files_whose_free_list_exactly_fills_its_pages_reopened", st.exact_fill_hits);
    shard.count("commits_made_to_steer_the_free_list_to_an_exact_fill", st.exact_fill_commits);
    shard.count("golden_files_with_garbage_in_uninitialised_padding", st.fuzzed_padding_files);
    shard.count("small_file_page_size_mismatches_refused", st.small_file_mismatches_refused);
    shard.count("golden_files_checked", st.files);
    shard.count("legacy_header_files_checked", st.legacy_files);
    shard.count("header_pairs_checked_for_alternation_after_further_commits", st.header_pair_checks);
    shard.count("opens_fully_verified_against_manifest", st.opens_verified);
    shard.count("further_commits_on_golden_files", st.followup_commits);
    shard.count("mismatching_page_sizes_refused", st.mismatched_sizes_refused);
    shard.count("independent_reader_vs_manifest", st.fileck_golden);
    shard.count("files_produced_by_current_code_parsed", st.produced_files_parsed);
    shard.exhaustive = Some(true);
    shard
}
