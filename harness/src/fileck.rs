//! Independent reader / checker of a jammdb file.  It shares no code and no
//! types with jammdb: the layout constants below were transcribed from the
//! pinned release (f5c2214) and are the *specification* the current tree is
//! compared with.
//!
//! page header   : id u64 @0 | type u8 @8 | count u64 @16 | overflow u64 @24 | payload @32
//! leaf element  : type u8 @0 | pos u64 @8 | key_size u64 @16 | value_size u64 @24   (32 bytes)
//! branch element: page u64 @0 | key_size u64 @8 | pos u64 @16                      (24 bytes)
//! header record : @32 of pages 0 and 1:
//!   meta_page u32 | magic u32 | version u32 | pad | pagesize u64 | root_page u64 |
//!   next_int u64 | num_pages u64 | freelist_page u64 | tx_id u64 | hash u64 (FNV-1a-64)
//!   legacy: same fields, then a 32-byte SHA3-256
use crate::model::{Entry, MBucket};
use std::collections::{BTreeMap, BTreeSet};

pub const T_BRANCH: u8 = 1;
pub const T_LEAF: u8 = 2;
pub const T_META: u8 = 3;
pub const T_FREELIST: u8 = 4;
pub const MAGIC: u32 = 0x00AB_CDEF;
pub const VERSION: u32 = 1;
pub const PAYLOAD: usize = 32;
pub const LEAF_ELEM: usize = 32;
pub const BRANCH_ELEM: usize = 24;
pub const META_LEN: usize = 72;
pub const OLD_META_LEN: usize = 96;

#[derive(Clone, Debug, PartialEq, Eq)]
pub struct MetaInfo {
    pub slot: u64,
    pub legacy: bool,
    pub meta_page: u32,
    pub magic: u32,
    pub version: u32,
    pub pagesize: u64,
    pub root_page: u64,
    pub next_int: u64,
    pub num_pages: u64,
    pub freelist_page: u64,
    pub tx_id: u64,
}

fn rd_u64(d: &[u8], off: usize) -> Option<u64> {
    d.get(off..off + 8)
        .map(|b| u64::from_le_bytes(b.try_into().unwrap()))
}
fn rd_u32(d: &[u8], off: usize) -> Option<u32> {
    d.get(off..off + 4)
        .map(|b| u32::from_le_bytes(b.try_into().unwrap()))
}

pub fn fnv1a64(parts: &[&[u8]]) -> u64 {
    let mut h: u64 = 0xcbf2_9ce4_8422_2325;
    for p in parts {
        for b in p.iter() {
            h ^= *b as u64;
            h = h.wrapping_mul(0x0000_0100_0000_01b3);
        }
    }
    h
}

fn meta_field_bytes(d: &[u8], base: usize) -> Option<Vec<u8>> {
    // big-endian encodings of the nine fields, in declaration order
    let mut v = Vec::with_capacity(60);
    v.extend_from_slice(&rd_u32(d, base)?.to_be_bytes());
    v.extend_from_slice(&rd_u32(d, base + 4)?.to_be_bytes());
    v.extend_from_slice(&rd_u32(d, base + 8)?.to_be_bytes());
    for i in 0..6 {
        v.extend_from_slice(&rd_u64(d, base + 16 + 8 * i)?.to_be_bytes());
    }
    Some(v)
}

/// Parse the header record in slot 0 or 1.  `None` = not a valid header
/// (wrong page type, bad checksum, out of file).
pub fn parse_meta(d: &[u8], pagesize: u64, slot: u64) -> Option<MetaInfo> {
    let p = (slot * pagesize) as usize;
    if *d.get(p + 8)? != T_META {
        return None;
    }
    let base = p + PAYLOAD;
    let fields = meta_field_bytes(d, base)?;
    let mk = |legacy: bool| -> Option<MetaInfo> {
        Some(MetaInfo {
            slot,
            legacy,
            meta_page: rd_u32(d, base)?,
            magic: rd_u32(d, base + 4)?,
            version: rd_u32(d, base + 8)?,
            pagesize: rd_u64(d, base + 16)?,
            root_page: rd_u64(d, base + 24)?,
            next_int: rd_u64(d, base + 32)?,
            num_pages: rd_u64(d, base + 40)?,
            freelist_page: rd_u64(d, base + 48)?,
            tx_id: rd_u64(d, base + 56)?,
        })
    };
    let hash = rd_u64(d, base + 64)?;
    if hash == fnv1a64(&[&fields]) {
        return mk(false);
    }
    None
}

pub fn parse_meta_legacy(d: &[u8], pagesize: u64, slot: u64) -> Option<MetaInfo> {
    use sha3::{Digest, Sha3_256};
    let p = (slot * pagesize) as usize;
    if *d.get(p + 8)? != T_META {
        return None;
    }
    let base = p + PAYLOAD;
    let fields = meta_field_bytes(d, base)?;
    let stored = d.get(base + 64..base + 96)?;
    let mut h = Sha3_256::new();
    h.update(&fields);
    let dig = h.finalize();
    if stored != &dig[..] {
        return None;
    }
    Some(MetaInfo {
        slot,
        legacy: true,
        meta_page: rd_u32(d, base)?,
        magic: rd_u32(d, base + 4)?,
        version: rd_u32(d, base + 8)?,
        pagesize: rd_u64(d, base + 16)?,
        root_page: rd_u64(d, base + 24)?,
        next_int: rd_u64(d, base + 32)?,
        num_pages: rd_u64(d, base + 40)?,
        freelist_page: rd_u64(d, base + 48)?,
        tx_id: rd_u64(d, base + 56)?,
    })
}

/// The header that defines the committed state: new format tried on both
/// slots first, then the legacy format; higher transaction id wins, slot 1 on a tie.
pub fn choose_meta(d: &[u8], pagesize: u64) -> (Option<MetaInfo>, [Option<MetaInfo>; 2]) {
    let m = [parse_meta(d, pagesize, 0), parse_meta(d, pagesize, 1)];
    let pick = |m: &[Option<MetaInfo>; 2]| match (&m[0], &m[1]) {
        (Some(a), Some(b)) => Some(if a.tx_id > b.tx_id { a.clone() } else { b.clone() }),
        (Some(a), None) => Some(a.clone()),
        (None, Some(b)) => Some(b.clone()),
        (None, None) => None,
    };
    if let Some(c) = pick(&m) {
        return (Some(c), m);
    }
    let l = [
        parse_meta_legacy(d, pagesize, 0),
        parse_meta_legacy(d, pagesize, 1),
    ];
    (pick(&l), l)
}

#[derive(Clone, Debug, Default, PartialEq, Eq, PartialOrd, Ord, Hash)]
pub struct BucketShape {
    pub depth: u32,
    pub leaves: u32,
    pub branches: u32,
    pub overflow_runs: u32,
    pub entries: u32,
}

#[derive(Clone, Debug, Default)]
pub struct Report {
    pub meta: Option<MetaInfo>,
    pub slots_valid: [bool; 2],
    pub contents: MBucket,
    /// structural / conservation violations
    pub errors: Vec<String>,
    /// observations that are not violations
    pub notes: Vec<String>,
    /// every page reachable from the root (heads and overflow pages)
    pub reachable: BTreeSet<u64>,
    pub freelist_run: BTreeSet<u64>,
    pub free_entries: Vec<u64>,
    /// shape of every bucket, root first
    pub shapes: Vec<BucketShape>,
    /// how often each rule was evaluated
    pub rule_evals: BTreeMap<&'static str, u64>,
    pub file_len: u64,
    /// every leaf page in traversal order: (bucket path, page id, depth, keys)
    pub leaves: Vec<LeafInfo>,
    /// head page of every branch / leaf / free-list run: (page id, type, element count)
    pub heads: Vec<(u64, u8, u64)>,
}

#[derive(Clone, Debug, Default)]
pub struct LeafInfo {
    pub bucket: String,
    pub page: u64,
    pub depth: u32,
    pub keys: Vec<Vec<u8>>,
}

impl Report {
    pub fn ok(&self) -> bool {
        self.errors.is_empty()
    }
    fn ev(&mut self, rule: &'static str) {
        *self.rule_evals.entry(rule).or_insert(0) += 1;
    }
    pub fn total_shape(&self) -> BucketShape {
        let mut t = BucketShape::default();
        for s in &self.shapes {
            t.depth = t.depth.max(s.depth);
            t.leaves += s.leaves;
            t.branches += s.branches;
            t.overflow_runs += s.overflow_runs;
            t.entries += s.entries;
        }
        t
    }
}

struct Walker<'a> {
    d: &'a [u8],
    ps: u64,
    num_pages: u64,
    rep: Report,
    // page head -> times visited
    seen_heads: BTreeMap<u64, u32>,
}

struct PageHdr {
    id: u64,
    ty: u8,
    count: u64,
    overflow: u64,
}

impl<'a> Walker<'a> {
    fn hdr(&self, page: u64) -> Option<PageHdr> {
        let p = page.checked_mul(self.ps)? as usize;
        Some(PageHdr {
            id: rd_u64(self.d, p)?,
            ty: *self.d.get(p + 8)?,
            count: rd_u64(self.d, p + 16)?,
            overflow: rd_u64(self.d, p + 24)?,
        })
    }

    fn err(&mut self, s: String) {
        if self.rep.errors.len() < 64 {
            self.rep.errors.push(s);
        }
    }

    /// Claims page run [page, page+overflow]; returns false if unusable.
    fn claim(&mut self, page: u64, h: &PageHdr, what: &str) -> bool {
        self.rep.ev("page_id_equals_position");
        if h.id != page {
            self.err(format!(
                "{} page {} stores id {} (id must equal position)",
                what, page, h.id
            ));
        }
        self.rep.ev("run_inside_high_water_mark");
        let end = page.checked_add(h.overflow).and_then(|x| x.checked_add(1));
        let end = match end {
            Some(e) if page >= 2 && e <= self.num_pages => e,
            _ => {
                self.err(format!(
                    "{} page {} (+{} overflow) lies outside [2, {})",
                    what, page, h.overflow, self.num_pages
                ));
                return false;
            }
        };
        if (end * self.ps) as usize > self.d.len() {
            self.err(format!(
                "{} page {} run ends beyond the end of the file",
                what, page
            ));
            return false;
        }
        let n = self.seen_heads.entry(page).or_insert(0);
        *n += 1;
        let dup_head = *n > 1;
        for p in page..end {
            self.rep.ev("page_claimed_once");
            if !self.rep.reachable.insert(p) || dup_head {
                self.err(format!(
                    "page {} is reachable more than once (run of {} page {})",
                    p, what, page
                ));
                return false;
            }
        }
        true
    }

    /// Walk one bucket's tree; returns entries in traversal order.
    fn walk_bucket(&mut self, root: u64, path: &str, depth_guard: u32) -> MBucket {
        let mut out = MBucket::default();
        let mut shape = BucketShape::default();
        let mut entries: Vec<(Vec<u8>, Entry)> = Vec::new();
        let mut leaf_depths: BTreeSet<u32> = BTreeSet::new();
        let shape_idx = self.rep.shapes.len();
        self.rep.shapes.push(BucketShape::default());
        self.walk_page(
            root,
            None,
            path,
            1,
            depth_guard,
            &mut entries,
            &mut shape,
            &mut leaf_depths,
        );
        if leaf_depths.len() > 1 {
            self.rep.notes.push(format!(
                "bucket {}: leaves at different depths {:?}",
                path, leaf_depths
            ));
        }
        // global order across pages
        for w in entries.windows(2) {
            self.rep.ev("keys_ascending_across_pages");
            if w[0].0 >= w[1].0 {
                self.err(format!(
                    "bucket {}: keys not strictly ascending across the traversal: {} then {}",
                    path,
                    crate::util::show(&w[0].0),
                    crate::util::show(&w[1].0)
                ));
                break;
            }
        }
        shape.entries = entries.len() as u32;
        self.rep.shapes[shape_idx] = shape;
        for (k, e) in entries {
            out.entries.insert(k, e);
        }
        out
    }

    #[allow(clippy::too_many_arguments)]
    fn walk_page(
        &mut self,
        page: u64,
        hi: Option<&[u8]>,
        path: &str,
        depth: u32,
        guard: u32,
        out: &mut Vec<(Vec<u8>, Entry)>,
        shape: &mut BucketShape,
        leaf_depths: &mut BTreeSet<u32>,
    ) -> Option<Vec<u8>> {
        // returns the smallest key found in this subtree
        if depth > 40 || guard > 24 {
            self.err(format!("bucket {}: tree too deep (cycle?)", path));
            return None;
        }
        let h = match self.hdr(page) {
            Some(h) => h,
            None => {
                self.err(format!("bucket {}: page {} outside the file", path, page));
                return None;
            }
        };
        self.rep.ev("page_type_is_branch_or_leaf");
        if h.ty != T_BRANCH && h.ty != T_LEAF {
            self.err(format!(
                "bucket {}: page {} has type {} (expected branch or leaf)",
                path, page, h.ty
            ));
            return None;
        }
        if !self.claim(page, &h, if h.ty == T_LEAF { "leaf" } else { "branch" }) {
            return None;
        }
        if h.overflow > 0 {
            shape.overflow_runs += 1;
        }
        self.rep.heads.push((page, h.ty, h.count));
        shape.depth = shape.depth.max(depth);
        let base = (page * self.ps) as usize;
        let run_end = base + ((h.overflow + 1) * self.ps) as usize;
        let esz = if h.ty == T_LEAF { LEAF_ELEM } else { BRANCH_ELEM };
        self.rep.ev("element_headers_inside_run");
        let hdr_end = (h.count as usize)
            .checked_mul(esz)
            .and_then(|x| x.checked_add(base + PAYLOAD));
        match hdr_end {
            Some(e) if e <= run_end => {}
            _ => {
                self.err(format!(
                    "bucket {}: page {} claims {} elements, beyond its run",
                    path, page, h.count
                ));
                return None;
            }
        }
        let mut min_key: Option<Vec<u8>> = None;
        if h.ty == T_LEAF {
            shape.leaves += 1;
            leaf_depths.insert(depth);
            if h.count == 0 && depth > 1 {
                self.rep
                    .notes
                    .push(format!("bucket {}: empty non-root leaf {}", path, page));
            }
            let mut last: Option<Vec<u8>> = None;
            let leaf_idx = self.rep.leaves.len();
            self.rep.leaves.push(LeafInfo {
                bucket: path.to_string(),
                page,
                depth,
                keys: Vec::new(),
            });
            for i in 0..h.count as usize {
                let e = base + PAYLOAD + i * esz;
                let ty = self.d[e];
                let pos = rd_u64(self.d, e + 8).unwrap() as usize;
                let ks = rd_u64(self.d, e + 16).unwrap() as usize;
                let vs = rd_u64(self.d, e + 24).unwrap() as usize;
                self.rep.ev("key_value_extent_inside_run");
                let kstart = e.checked_add(pos);
                let vend = kstart
                    .and_then(|x| x.checked_add(ks))
                    .and_then(|x| x.checked_add(vs));
                let (kstart, vend) = match (kstart, vend) {
                    (Some(a), Some(b)) if b <= run_end && a >= base + PAYLOAD => (a, b),
                    _ => {
                        self.err(format!(
                            "bucket {}: leaf {} element {} extends outside its page run",
                            path, page, i
                        ));
                        return min_key;
                    }
                };
                let key = self.d[kstart..kstart + ks].to_vec();
                let val = &self.d[kstart + ks..vend];
                self.rep.ev("keys_ascending_in_page");
                if let Some(l) = &last {
                    if l >= &key {
                        self.err(format!(
                            "bucket {}: leaf {} keys not strictly ascending at element {}",
                            path, page, i
                        ));
                    }
                }
                if let Some(hi) = hi {
                    self.rep.ev("subtree_below_next_separator");
                    if key.as_slice() >= hi {
                        self.err(format!(
                            "bucket {}: leaf {} key {} is not below the next separator {}",
                            path,
                            page,
                            crate::util::show(&key),
                            crate::util::show(hi)
                        ));
                    }
                }
                if min_key.is_none() {
                    min_key = Some(key.clone());
                }
                last = Some(key.clone());
                self.rep.leaves[leaf_idx].keys.push(key.clone());
                self.rep.ev("leaf_element_type");
                match ty {
                    0 => out.push((key, Entry::Val(val.to_vec()))),
                    1 => {
                        self.rep.ev("bucket_value_is_16_bytes");
                        if vs != 16 {
                            self.err(format!(
                                "bucket {}: leaf {} bucket element {} has a {}-byte value",
                                path, page, i, vs
                            ));
                            continue;
                        }
                        let root = u64::from_le_bytes(val[0..8].try_into().unwrap());
                        let next_int = u64::from_le_bytes(val[8..16].try_into().unwrap());
                        self.rep.ev("child_page_in_range");
                        if root < 2 || root >= self.num_pages {
                            self.err(format!(
                                "bucket {}: nested bucket {} has root page {} outside [2, {})",
                                path,
                                crate::util::show(&key),
                                root,
                                self.num_pages
                            ));
                            continue;
                        }
                        let sub_path = format!("{}/{}", path, crate::util::show(&key));
                        let mut nb = self.walk_bucket(root, &sub_path, guard + 1);
                        nb.next_int = next_int;
                        out.push((key, Entry::Bucket(nb)));
                    }
                    t => {
                        self.err(format!(
                            "bucket {}: leaf {} element {} has type {}",
                            path, page, i, t
                        ));
                    }
                }
            }
        } else {
            shape.branches += 1;
            if h.count == 0 {
                self.err(format!("bucket {}: branch page {} has no children", path, page));
                return None;
            }
            // read all separators first
            let mut seps: Vec<(Vec<u8>, u64)> = Vec::with_capacity(h.count as usize);
            for i in 0..h.count as usize {
                let e = base + PAYLOAD + i * esz;
                let child = rd_u64(self.d, e).unwrap();
                let ks = rd_u64(self.d, e + 8).unwrap() as usize;
                let pos = rd_u64(self.d, e + 16).unwrap() as usize;
                self.rep.ev("key_value_extent_inside_run");
                let kstart = e.checked_add(pos);
                let kend = kstart.and_then(|x| x.checked_add(ks));
                match (kstart, kend) {
                    (Some(a), Some(b)) if b <= run_end && a >= base + PAYLOAD => {
                        seps.push((self.d[a..b].to_vec(), child));
                    }
                    _ => {
                        self.err(format!(
                            "bucket {}: branch {} element {} extends outside its page run",
                            path, page, i
                        ));
                        return None;
                    }
                }
            }
            for w in seps.windows(2) {
                self.rep.ev("keys_ascending_in_page");
                if w[0].0 >= w[1].0 {
                    self.err(format!(
                        "bucket {}: branch {} separators not strictly ascending",
                        path, page
                    ));
                }
            }
            for j in 0..seps.len() {
                let child = seps[j].1;
                self.rep.ev("child_page_in_range");
                if child < 2 || child >= self.num_pages {
                    self.err(format!(
                        "bucket {}: branch {} child {} outside [2, {})",
                        path, page, child, self.num_pages
                    ));
                    continue;
                }
                let child_hi: Option<Vec<u8>> = if j + 1 < seps.len() {
                    Some(seps[j + 1].0.clone())
                } else {
                    hi.map(|x| x.to_vec())
                };
                let sub_min = self.walk_page(
                    child,
                    child_hi.as_deref(),
                    path,
                    depth + 1,
                    guard,
                    out,
                    shape,
                    leaf_depths,
                );
                if let Some(m) = &sub_min {
                    if min_key.is_none() {
                        min_key = Some(m.clone());
                    }
                    self.rep.ev("separator_not_above_subtree");
                    if seps[j].0.as_slice() > m.as_slice() {
                        let msg = format!(
                            "bucket {}: branch {} separator {} {} is above the smallest key {} of its subtree",
                            path,
                            page,
                            j,
                            crate::util::show(&seps[j].0),
                            crate::util::show(m)
                        );
                        if j == 0 {
                            // lookups clamp to the first child, so this is harmless
                            self.rep.notes.push(msg);
                        } else {
                            self.err(msg);
                        }
                    }
                }
            }
        }
        min_key
    }
}

/// Check a whole file image.
pub fn check(d: &[u8], pagesize: u64) -> Report {
    let (meta, slots) = choose_meta(d, pagesize);
    let mut rep = match &meta {
        Some(m) => check_from(d, pagesize, m),
        None => {
            let mut r = Report::default();
            r.errors.push("no valid header page".into());
            r
        }
    };
    rep.slots_valid = [slots[0].is_some(), slots[1].is_some()];
    rep.file_len = d.len() as u64;
    rep
}

/// Walk from a given header (used for snapshots pinned by readers as well).
pub fn check_from(d: &[u8], pagesize: u64, m: &MetaInfo) -> Report {
    let mut w = Walker {
        d,
        ps: pagesize,
        num_pages: m.num_pages,
        rep: Report::default(),
        seen_heads: BTreeMap::new(),
    };
    w.rep.meta = Some(m.clone());
    w.rep.file_len = d.len() as u64;
    w.rep.ev("header_fields");
    if m.magic != MAGIC {
        w.err(format!("header magic {:#x} != {:#x}", m.magic, MAGIC));
    }
    if m.version != VERSION {
        w.err(format!("header version {} != {}", m.version, VERSION));
    }
    if m.pagesize != pagesize {
        w.err(format!("header pagesize {} != {}", m.pagesize, pagesize));
    }
    if m.meta_page as u64 != m.slot {
        w.err(format!(
            "header in slot {} says it is slot {}",
            m.slot, m.meta_page
        ));
    }
    w.rep.ev("file_long_enough");
    if (d.len() as u64) < m.num_pages.saturating_mul(pagesize) {
        w.err(format!(
            "file length {} < num_pages {} x pagesize {}",
            d.len(),
            m.num_pages,
            pagesize
        ));
    }
    if m.root_page < 2 || m.root_page >= m.num_pages {
        w.err(format!("root page {} outside [2, {})", m.root_page, m.num_pages));
    } else {
        let mut c = w.walk_bucket(m.root_page, "", 0);
        c.next_int = m.next_int;
        w.rep.contents = c;
    }
    // free list page
    match w.hdr(m.freelist_page) {
        Some(h) if m.freelist_page >= 2 && m.freelist_page < m.num_pages => {
            w.rep.ev("freelist_page_type");
            if h.ty != T_FREELIST {
                w.err(format!(
                    "free-list page {} has type {}",
                    m.freelist_page, h.ty
                ));
            } else {
                if h.id != m.freelist_page {
                    w.err(format!(
                        "free-list page {} stores id {}",
                        m.freelist_page, h.id
                    ));
                }
                let base = (m.freelist_page * pagesize) as usize;
                let end_page = m.freelist_page.saturating_add(h.overflow).saturating_add(1);
                let run_end = (end_page.saturating_mul(pagesize)) as usize;
                let need = (h.count as usize)
                    .checked_mul(8)
                    .and_then(|x| x.checked_add(base + PAYLOAD));
                if end_page > m.num_pages || run_end > d.len() || need.map_or(true, |n| n > run_end)
                {
                    w.err(format!(
                        "free-list page {} (count {}, overflow {}) does not fit its run / the file",
                        m.freelist_page, h.count, h.overflow
                    ));
                } else {
                    for p in m.freelist_page..end_page {
                        w.rep.freelist_run.insert(p);
                    }
                    w.rep.heads.push((m.freelist_page, T_FREELIST, h.count));
                    for i in 0..h.count as usize {
                        let id = rd_u64(d, base + PAYLOAD + 8 * i).unwrap();
                        w.rep.free_entries.push(id);
                    }
                }
            }
        }
        _ => w.err(format!(
            "free-list page {} outside [2, {})",
            m.freelist_page, m.num_pages
        )),
    }
    // conservation: every page in [2, num_pages) has exactly one role
    let mut free_set = BTreeSet::new();
    let free_entries = w.rep.free_entries.clone();
    for id in &free_entries {
        w.rep.ev("free_entry_unique_and_in_range");
        if *id < 2 || *id >= m.num_pages {
            w.err(format!(
                "free-list entry {} outside [2, {})",
                id, m.num_pages
            ));
        }
        if !free_set.insert(*id) {
            w.err(format!("free-list entry {} listed twice", id));
        }
    }
    let mut leaked = Vec::new();
    for p in 2..m.num_pages.min(1 << 24) {
        w.rep.ev("page_has_exactly_one_role");
        let roles = w.rep.reachable.contains(&p) as u32
            + w.rep.freelist_run.contains(&p) as u32
            + free_set.contains(&p) as u32;
        if roles == 0 {
            leaked.push(p);
        } else if roles > 1 {
            w.err(format!(
                "page {} has {} roles (reachable={}, free-list page={}, free entry={})",
                p,
                roles,
                w.rep.reachable.contains(&p),
                w.rep.freelist_run.contains(&p),
                free_set.contains(&p)
            ));
        }
    }
    if !leaked.is_empty() {
        let n = leaked.len();
        leaked.truncate(12);
        w.err(format!(
            "{} page(s) below the high-water mark have no role (leaked): {:?}",
            n, leaked
        ));
    }
    w.rep
}

pub fn check_file(path: &std::path::Path, pagesize: u64) -> std::io::Result<Report> {
    let d = std::fs::read(path)?;
    Ok(check(&d, pagesize))
}
