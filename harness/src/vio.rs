//! Binding to the LD_PRELOAD I/O shim (shim/ioshim.c) and a parser for its log.
use std::ffi::CString;

type FnSetLog = unsafe extern "C" fn(*const libc::c_char);
type FnMark = unsafe extern "C" fn(*const libc::c_char);
type FnArm = unsafe extern "C" fn(libc::c_int, i64, libc::c_int, libc::c_int);
type FnReset = unsafe extern "C" fn();
type FnStats = unsafe extern "C" fn(*mut u64);
type FnShortLen = unsafe extern "C" fn(i64);
type FnBelow = unsafe extern "C" fn(i64);

pub struct Vio {
    set_log: FnSetLog,
    mark: FnMark,
    arm: FnArm,
    reset: FnReset,
    stats: FnStats,
    short_len: Option<FnShortLen>,
    below: Option<FnBelow>,
}

#[derive(Debug, Clone, Copy, Default)]
pub struct IoStats {
    pub writes: u64,
    pub fsyncs: u64,
    pub opens: u64,
    pub mmaps: u64,
    pub truncs: u64,
    pub fired: u64,
}

pub const CLASS_WRITE: i32 = 1;
pub const CLASS_FSYNC: i32 = 2;
/// writes that land in the two header pages (file offset below `below`)
pub const CLASS_HEADER_WRITE: i32 = 3;
/// the nth mmap of the database file fails with ENOMEM
pub const CLASS_MMAP: i32 = 4;
pub const KIND_FAIL: i32 = 0;
pub const KIND_SHORT: i32 = 1;
pub const KIND_FAIL_FROM: i32 = 2;

unsafe fn sym(name: &str) -> *mut libc::c_void {
    let c = CString::new(name).unwrap();
    libc::dlsym(libc::RTLD_DEFAULT, c.as_ptr())
}

impl Vio {
    /// None if the process was not started with the shim preloaded.
    pub fn get() -> Option<Vio> {
        unsafe {
            let a = sym("vio_set_log");
            let b = sym("vio_mark");
            let c = sym("vio_arm");
            let d = sym("vio_reset");
            let e = sym("vio_stats");
            if a.is_null() || b.is_null() || c.is_null() || d.is_null() || e.is_null() {
                return None;
            }
            let f = sym("vio_short_len");
            let gb = sym("vio_below");
            Some(Vio {
                below: if gb.is_null() { None } else { Some(std::mem::transmute::<*mut libc::c_void, FnBelow>(gb)) },
                short_len: if f.is_null() { None } else { Some(std::mem::transmute::<*mut libc::c_void, FnShortLen>(f)) },
                set_log: std::mem::transmute::<*mut libc::c_void, FnSetLog>(a),
                mark: std::mem::transmute::<*mut libc::c_void, FnMark>(b),
                arm: std::mem::transmute::<*mut libc::c_void, FnArm>(c),
                reset: std::mem::transmute::<*mut libc::c_void, FnReset>(d),
                stats: std::mem::transmute::<*mut libc::c_void, FnStats>(e),
            })
        }
    }
    pub fn set_log(&self, path: Option<&std::path::Path>) {
        let c = CString::new(path.map(|p| p.to_string_lossy().to_string()).unwrap_or_default()).unwrap();
        unsafe { (self.set_log)(c.as_ptr()) }
    }
    pub fn mark(&self, text: &str) {
        let c = CString::new(text).unwrap();
        unsafe { (self.mark)(c.as_ptr()) }
    }
    pub fn arm(&self, class: i32, nth: i64, errno: i32, kind: i32) {
        unsafe { (self.arm)(class, nth, errno, kind) }
    }
    /// how many bytes the next armed short write really writes (0 = half of the buffer)
    pub fn short_len(&self, n: i64) {
        if let Some(f) = self.short_len {
            unsafe { f(n) }
        }
    }
    pub fn below(&self, n: i64) {
        if let Some(f) = self.below {
            unsafe { f(n) }
        }
    }
    pub fn reset(&self) {
        unsafe { (self.reset)() }
    }
    pub fn stats(&self) -> IoStats {
        let mut o = [0u64; 6];
        unsafe { (self.stats)(o.as_mut_ptr()) };
        IoStats { writes: o[0], fsyncs: o[1], opens: o[2], mmaps: o[3], truncs: o[4], fired: o[5] }
    }
}

#[derive(Debug, Clone)]
pub enum Ev {
    Open { size_after: u64 },
    Write { off: u64, data: Vec<u8>, want: u64, size_after: u64, ok: bool },
    Sync { ok: bool, size_after: u64 },
    Truncate { len: u64 },
    Mmap { len: u64 },
    Close,
    Mark(String),
}

/// Parse the shim's binary log.
pub fn parse_log(bytes: &[u8]) -> Result<Vec<Ev>, String> {
    let mut out = Vec::new();
    let mut p = 0usize;
    const REC: usize = 56;
    while p + REC <= bytes.len() {
        let magic = u32::from_le_bytes(bytes[p..p + 4].try_into().unwrap());
        if magic != 0x5649_4f31 {
            return Err(format!("bad record magic at {}", p));
        }
        let op = u32::from_le_bytes(bytes[p + 4..p + 8].try_into().unwrap());
        let _fd = i32::from_le_bytes(bytes[p + 8..p + 12].try_into().unwrap());
        let _err = i32::from_le_bytes(bytes[p + 12..p + 16].try_into().unwrap());
        let _seq = u64::from_le_bytes(bytes[p + 16..p + 24].try_into().unwrap());
        let off = i64::from_le_bytes(bytes[p + 24..p + 32].try_into().unwrap());
        let len = u64::from_le_bytes(bytes[p + 32..p + 40].try_into().unwrap());
        let ret = i64::from_le_bytes(bytes[p + 40..p + 48].try_into().unwrap());
        let size_after = u64::from_le_bytes(bytes[p + 48..p + 56].try_into().unwrap());
        p += REC;
        let payload = match op {
            1 | 9 => len as usize,
            2 | 3 => if ret > 0 { ret as usize } else { 0 },
            _ => 0,
        };
        if p + payload > bytes.len() {
            return Err("truncated log".into());
        }
        let data = &bytes[p..p + payload];
        p += payload;
        match op {
            1 => out.push(Ev::Open { size_after }),
            2 | 3 => out.push(Ev::Write { off: off as u64, data: data.to_vec(), want: len, size_after, ok: ret == len as i64 }),
            4 | 5 => out.push(Ev::Sync { ok: ret == 0, size_after }),
            6 => out.push(Ev::Truncate { len: off as u64 }),
            7 => out.push(Ev::Mmap { len }),
            8 => out.push(Ev::Close),
            9 => out.push(Ev::Mark(String::from_utf8_lossy(data).to_string())),
            _ => return Err(format!("unknown op {}", op)),
        }
    }
    Ok(out)
}
