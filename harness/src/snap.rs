//! Pinned-snapshot bookkeeping for the free-set safety invariant (DESIGN §2.8):
//! which pages a committed header reaches, and a hash of their bytes.
use crate::fileck::{self, MetaInfo};
use std::collections::BTreeSet;

#[derive(Clone, Debug)]
pub struct Pinned {
    pub meta: MetaInfo,
    /// pages reachable from the header's root (heads and overflow), plus its free-list page run
    pub reach: BTreeSet<u64>,
    pub hash: u64,
    pub sound: bool,
}

fn hash_pages(d: &[u8], ps: u64, pages: &BTreeSet<u64>) -> u64 {
    let mut h = 0xcbf2_9ce4_8422_2325u64;
    for p in pages {
        let a = (*p * ps) as usize;
        let b = a + ps as usize;
        if b <= d.len() {
            h = crate::util::fnv64_more(h, &d[a..b]);
        } else {
            h = crate::util::fnv64_more(h, b"<beyond file>");
        }
    }
    h
}

/// Pin the state defined by the newest valid header of the file image `d`.
pub fn pin_newest(d: &[u8], ps: u64) -> Option<Pinned> {
    let (m, _) = fileck::choose_meta(d, ps);
    m.map(|m| pin(d, ps, &m))
}

pub fn pin(d: &[u8], ps: u64, m: &MetaInfo) -> Pinned {
    let rep = fileck::check_from(d, ps, m);
    let mut reach = rep.reachable.clone();
    // the snapshot's own free-list page is not needed by readers; only tree pages are pinned
    let hash = hash_pages(d, ps, &reach);
    reach.retain(|p| *p >= 2);
    Pinned {
        meta: m.clone(),
        reach,
        hash,
        sound: rep.ok(),
    }
}

pub fn rehash(d: &[u8], ps: u64, p: &Pinned) -> u64 {
    hash_pages(d, ps, &p.reach)
}

/// Read the first `pages` pages of a file (or the whole file if shorter).
pub fn read_prefix(path: &std::path::Path, bytes: u64) -> Vec<u8> {
    use std::io::Read;
    let mut v = Vec::new();
    if let Ok(f) = std::fs::File::open(path) {
        let _ = f.take(bytes).read_to_end(&mut v);
    }
    v
}
