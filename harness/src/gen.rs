//! Seeded, model-driven generator of operation histories (the "grammar
//! generator" of DESIGN.md §2.3).  It runs the reference model while it
//! generates so that it knows which handles exist and can aim operations at
//! present / absent / conflicting keys on purpose.
use crate::model::{Entry, MBucket};
use crate::ops::*;
use crate::util::Rng;

#[derive(Clone, Debug)]
pub struct GenCfg {
    pub pagesize: u64,
    pub num_pages: usize,
    pub profile: u8,
    pub n_txs: (usize, usize),
    pub ops_per_tx: (usize, usize),
    /// percent of transactions that roll back
    pub p_rollback: u64,
    /// percent of transactions followed by close + reopen
    pub p_reopen: u64,
    /// per-transaction percent chance of one deliberate deleted-handle misuse
    pub p_misuse: u64,
    pub max_depth: usize,
    /// absolute cap on a single value (0 = none)
    pub max_value: usize,
}

impl GenCfg {
    pub fn default_for(pagesize: u64, profile: u8) -> GenCfg {
        GenCfg {
            pagesize,
            num_pages: 8,
            profile,
            n_txs: (2, 8),
            ops_per_tx: (4, 40),
            p_rollback: 20,
            p_reopen: 10,
            p_misuse: 4,
            max_depth: 3,
            max_value: 0,
        }
    }
}

pub const N_PROFILES: u8 = 5;
pub fn profile_name(p: u8) -> &'static str {
    match p {
        0 => "mixed",
        1 => "many-small",
        2 => "blobs",
        3 => "buckets",
        _ => "delete-heavy",
    }
}

#[derive(Clone, Debug, PartialEq, Eq)]
pub enum HState {
    Live,
    Deleted,
    Orphan,
}

#[derive(Clone, Debug)]
pub struct HInfo {
    pub path: Vec<Vec<u8>>,
    pub state: HState,
}

/// Tracks which handles a transaction holds; shared by generator and executor.
#[derive(Default, Clone, Debug)]
pub struct Handles {
    pub v: Vec<HInfo>,
}

impl Handles {
    pub fn push(&mut self, path: Vec<Vec<u8>>) -> usize {
        self.v.push(HInfo {
            path,
            state: HState::Live,
        });
        self.v.len() - 1
    }
    pub fn push_dead(&mut self) -> usize {
        self.v.push(HInfo {
            path: vec![],
            state: HState::Orphan,
        });
        self.v.len() - 1
    }
    pub fn on_bucket_deleted(&mut self, target: &[Vec<u8>]) {
        for h in self.v.iter_mut() {
            if h.state != HState::Live {
                continue;
            }
            if h.path.as_slice() == target {
                h.state = HState::Deleted;
            } else if h.path.len() > target.len() && h.path[..target.len()] == *target {
                h.state = HState::Orphan;
            }
        }
    }
    pub fn live(&self) -> Vec<usize> {
        (0..self.v.len())
            .filter(|i| self.v[*i].state == HState::Live)
            .collect()
    }
    pub fn deleted(&self) -> Vec<usize> {
        (0..self.v.len())
            .filter(|i| self.v[*i].state == HState::Deleted)
            .collect()
    }
}

struct Pools {
    keys: Vec<K>,
    bnames: Vec<K>,
    vlen: Vec<(usize, u32)>,
}

fn make_pools(rng: &mut Rng, cfg: &GenCfg) -> Pools {
    let ps = cfg.pagesize as usize;
    let mut keys: Vec<K> = Vec::new();
    let bnames: Vec<K> = vec![
        K::lit(b"a"),
        K::lit(b"b"),
        K::lit(b"bk"),
        K::lit(b""),
        K {
            pre: b"nested-".to_vec(),
            fill: 30,
            post: b"x".to_vec(),
        },
        K::lit(b"m"),
    ];
    let short = |rng: &mut Rng| -> K {
        let n = rng.range(1, 3) as usize;
        K::lit(
            &(0..n)
                .map(|_| *rng.pick(b"abcdmxyz\x00\xff0"))
                .collect::<Vec<u8>>(),
        )
    };
    let medium = |i: usize| -> K {
        K {
            pre: format!("k{:04}", i).into_bytes(),
            fill: 30,
            post: b"$".to_vec(),
        }
    };
    let page_key = |rng: &mut Rng, lo: usize, hi: usize| -> K {
        let n = rng.range(lo as u64, hi as u64) as usize;
        if rng.chance(1, 2) {
            // differ only at the very end
            K {
                pre: b"P".to_vec(),
                fill: n.saturating_sub(3),
                post: vec![b'0' + rng.below(8) as u8, b'z'],
            }
        } else {
            K {
                pre: vec![b'Q', b'a' + rng.below(20) as u8],
                fill: n.saturating_sub(2),
                post: vec![],
            }
        }
    };
    let vlen: Vec<(usize, u32)>;
    match cfg.profile {
        1 => {
            // many small/medium keys, values of a fraction of a page -> deep trees
            let n = rng.range(60, 220) as usize;
            let stride = rng.range(1, 4) as usize;
            for i in 0..n {
                keys.push(medium(i * stride));
            }
            keys.push(K::lit(b""));
            for _ in 0..6 {
                keys.push(short(rng));
            }
            vlen = vec![(0, 2), (8, 6), (ps / 8, 30), (ps / 4, 30), (ps / 2, 6), (ps, 1)];
        }
        2 => {
            for _ in 0..6 {
                keys.push(short(rng));
            }
            for i in 0..10 {
                keys.push(medium(i));
            }
            for _ in 0..6 {
                keys.push(page_key(rng, ps - 60, ps + 16));
            }
            for _ in 0..5 {
                keys.push(page_key(rng, ps * 3 / 2, ps * 3));
            }
            keys.push(K::lit(b""));
            vlen = vec![
                (0, 5),
                (5, 10),
                (ps / 4, 10),
                (ps, 15),
                (ps * 2 + 7, 8),
                (ps * 5, 6),
            ];
        }
        3 => {
            for _ in 0..8 {
                keys.push(short(rng));
            }
            for i in 0..12 {
                keys.push(medium(i));
            }
            keys.push(K::lit(b""));
            vlen = vec![(0, 4), (8, 20), (ps / 4, 20), (ps, 4), (ps * 3, 1)];
        }
        4 => {
            let n = rng.range(30, 120) as usize;
            for i in 0..n {
                keys.push(medium(i));
            }
            for _ in 0..4 {
                keys.push(short(rng));
            }
            keys.push(K::lit(b""));
            vlen = vec![(3, 10), (ps / 6, 30), (ps / 3, 30), (ps, 2)];
        }
        _ => {
            keys.push(K::lit(b""));
            for _ in 0..8 {
                keys.push(short(rng));
            }
            for i in 0..16 {
                keys.push(medium(i));
            }
            for _ in 0..2 {
                keys.push(page_key(rng, ps - 60, ps + 16));
            }
            keys.push(page_key(rng, ps * 3 / 2, ps * 3));
            vlen = vec![
                (0, 6),
                (4, 20),
                (ps / 4, 25),
                (ps / 2, 8),
                (ps, 6),
                (ps * 5, 2),
            ];
        }
    }
    // bucket names are also candidate keys, so kv / bucket conflicts happen
    for b in &bnames {
        keys.push(b.clone());
    }
    Pools { keys, bnames, vlen }
}

fn pick_how(rng: &mut Rng, key: &[u8]) -> How {
    // mostly slices (cheap), sometimes every other implementation
    if rng.chance(6, 10) {
        return How::Slice;
    }
    let utf8 = std::str::from_utf8(key).is_ok();
    loop {
        let h = *rng.pick(&ALL_HOW);
        match h {
            How::Str | How::String if !utf8 => continue,
            How::Array if !matches!(key.len(), 0 | 1 | 2 | 3 | 4 | 8 | 16) => continue,
            _ => return h,
        }
    }
}

pub struct Gen<'a> {
    rng: &'a mut Rng,
    cfg: GenCfg,
    pools: Pools,
    tag: u64,
}

impl<'a> Gen<'a> {
    pub fn new(rng: &'a mut Rng, cfg: GenCfg) -> Gen<'a> {
        let pools = make_pools(rng, &cfg);
        let tag = rng.next() & 0xffff_ffff_0000_0000;
        Gen {
            rng,
            cfg,
            pools,
            tag,
        }
    }

    fn value(&mut self) -> V {
        self.tag += 1;
        let w: Vec<u32> = self.pools.vlen.iter().map(|x| x.1).collect();
        let i = self.rng.weighted(&w);
        let base = self.pools.vlen[i].0;
        let mut len = if base == 0 {
            0
        } else {
            // jitter around the class size
            let j = (base / 8).max(1) as u64;
            (base as u64 + self.rng.below(2 * j + 1)).saturating_sub(j) as usize
        };
        if self.cfg.max_value > 0 {
            len = len.min(self.cfg.max_value);
        }
        V { tag: self.tag, len }
    }

    /// a key aimed at bucket `b`: present / absent mixture
    fn key_for(&mut self, b: &MBucket, want_present: Option<bool>) -> K {
        let present = match want_present {
            Some(p) => p,
            None => self.rng.chance(1, 2),
        };
        if present && !b.entries.is_empty() {
            let n = self.rng.usize(b.entries.len());
            let k = b.entries.keys().nth(n).unwrap();
            // find the spec in the pool (keys are only ever created from the pool)
            for cand in self.pools.keys.iter() {
                if &cand.bytes() == k {
                    return cand.clone();
                }
            }
            return K::lit(k);
        }
        self.rng.pick(&self.pools.keys).clone()
    }

    fn kv_key_for(&mut self, b: &MBucket, present: bool) -> K {
        // prefer keys that hold values (for delete / overwrite)
        if present {
            let ks: Vec<&Vec<u8>> = b
                .entries
                .iter()
                .filter(|(_, e)| matches!(e, Entry::Val(_)))
                .map(|(k, _)| k)
                .collect();
            if !ks.is_empty() {
                let k = (*self.rng.pick(&ks)).clone();
                for cand in self.pools.keys.iter() {
                    if cand.bytes() == k {
                        return cand.clone();
                    }
                }
                return K::lit(&k);
            }
        }
        self.rng.pick(&self.pools.keys).clone()
    }

    fn bucket_name_for(&mut self, b: &MBucket, present: Option<bool>) -> K {
        let present = present.unwrap_or_else(|| self.rng.chance(1, 2));
        if present {
            let ks: Vec<&Vec<u8>> = b
                .entries
                .iter()
                .filter(|(_, e)| matches!(e, Entry::Bucket(_)))
                .map(|(k, _)| k)
                .collect();
            if !ks.is_empty() {
                let k = (*self.rng.pick(&ks)).clone();
                for cand in self.pools.bnames.iter().chain(self.pools.keys.iter()) {
                    if cand.bytes() == k {
                        return cand.clone();
                    }
                }
                return K::lit(&k);
            }
        }
        if self.rng.chance(1, 12) {
            // a name that currently holds a value, or any key
            return self.rng.pick(&self.pools.keys).clone();
        }
        self.rng.pick(&self.pools.bnames).clone()
    }

    fn bound(&mut self, b: &MBucket) -> B {
        match self.rng.below(5) {
            0 => B::Unb,
            1 | 2 => B::Inc(self.key_for(b, None)),
            _ => B::Exc(self.key_for(b, None)),
        }
    }

    pub fn history(&mut self) -> History {
        let mut committed = MBucket::default();
        let n_txs = self.rng.range(self.cfg.n_txs.0 as u64, self.cfg.n_txs.1 as u64) as usize;
        let mut txs = Vec::new();
        for t in 0..n_txs {
            let mut work = committed.clone();
            let script = self.tx_script(&mut work, t);
            if script.end == End::Commit {
                committed = work;
            }
            txs.push(script);
        }
        History {
            pagesize: self.cfg.pagesize,
            num_pages: self.cfg.num_pages,
            strict: false,
            populate: false,
            txs,
            origin: format!("grammar profile={}", profile_name(self.cfg.profile)),
            pins: vec![],
        }
    }

    /// weights: [put, get, get_kv, delete, create, getb, get_or_create, deleteb,
    ///           scan, seek, range, buckets, kvpairs, next_int, tx-level]
    fn weights(&self, tx_index: usize) -> [u32; 15] {
        match self.cfg.profile {
            1 => [60, 4, 2, 14, 1, 2, 2, 1, 2, 2, 2, 1, 1, 1, 2],
            2 => [40, 6, 3, 16, 2, 3, 3, 2, 3, 3, 3, 1, 1, 1, 3],
            3 => [14, 4, 2, 6, 10, 10, 12, 10, 3, 2, 2, 4, 2, 3, 14],
            4 => {
                if tx_index == 0 {
                    [80, 1, 1, 4, 1, 1, 2, 0, 1, 1, 1, 1, 1, 1, 2]
                } else {
                    [10, 4, 2, 60, 1, 2, 2, 3, 3, 2, 2, 1, 1, 1, 2]
                }
            }
            _ => [30, 8, 4, 14, 5, 6, 6, 5, 4, 4, 4, 2, 2, 2, 6],
        }
    }

    pub fn tx_script(&mut self, work: &mut MBucket, tx_index: usize) -> TxScript {
        let mut ops: Vec<Op> = Vec::new();
        let mut hs = Handles::default();
        let (lo, hi) = self.cfg.ops_per_tx;
        let mut n_ops = self.rng.range(lo as u64, hi as u64) as usize;
        if tx_index > 0 && self.rng.chance(1, 25) {
            n_ops = 0; // a write transaction that commits (or rolls back) without touching anything
        }
        if (self.cfg.profile == 1 || self.cfg.profile == 4) && tx_index == 0 {
            n_ops = n_ops.max(hi * 2);
        }
        let misuse_at = if self.rng.below(100) < self.cfg.p_misuse {
            Some(self.rng.usize(n_ops.max(1)))
        } else {
            None
        };
        let mut end = if self.rng.below(100) < self.cfg.p_rollback {
            End::Rollback
        } else {
            End::Commit
        };
        let w = self.weights(tx_index);
        let mut i = 0;
        while i < n_ops {
            i += 1;
            if Some(i) == misuse_at {
                let dead = hs.deleted();
                if !dead.is_empty() {
                    let h = *self.rng.pick(&dead);
                    ops.push(Op::Misuse {
                        h,
                        what: self.rng.below(14) as u8,
                    });
                    end = End::Rollback;
                    break;
                }
            }
            let live = hs.live();
            let mut choice = self.rng.weighted(&w);
            if live.is_empty() {
                choice = 14;
            }
            if choice == 14 {
                // root-level operation
                let root = work.clone();
                match self.rng.below(10) {
                    0 | 1 => {
                        let k = self.bucket_name_for(&root, Some(false));
                        let how = pick_how(self.rng, &k.bytes());
                        if work.create_bucket(&k.bytes()).is_ok() {
                            hs.push(vec![k.bytes()]);
                        } else {
                            hs.push_dead();
                        }
                        ops.push(Op::TxCreate { k, how });
                    }
                    2 | 3 => {
                        let k = self.bucket_name_for(&root, Some(true));
                        let mut how = pick_how(self.rng, &k.bytes());
                        if work.get_bucket(&k.bytes()).is_ok() {
                            hs.push(vec![k.bytes()]);
                            // a third of the handles to existing buckets come out of the listing
                            if self.rng.chance(1, 3) {
                                how = How::Listed;
                            }
                        } else {
                            hs.push_dead();
                        }
                        ops.push(Op::TxGet { k, how });
                    }
                    4..=7 => {
                        let k = self.bucket_name_for(&root, None);
                        let how = pick_how(self.rng, &k.bytes());
                        if work.get_or_create_bucket(&k.bytes()).is_ok() {
                            hs.push(vec![k.bytes()]);
                        } else {
                            hs.push_dead();
                        }
                        ops.push(Op::TxGetOrCreate { k, how });
                    }
                    8 => {
                        let k = self.bucket_name_for(&root, Some(true));
                        let how = pick_how(self.rng, &k.bytes());
                        if work.delete_bucket(&k.bytes()).is_ok() {
                            hs.on_bucket_deleted(&[k.bytes()]);
                        }
                        ops.push(Op::TxDelete { k, how });
                    }
                    _ => ops.push(Op::TxBuckets),
                }
                continue;
            }
            let h = *self.rng.pick(&live);
            let path = hs.v[h].path.clone();
            let b = match work.at(&path) {
                Some(b) => b.clone(),
                None => {
                    // cannot happen if handle tracking is right; be defensive
                    hs.v[h].state = HState::Orphan;
                    continue;
                }
            };
            match choice {
                0 => {
                    let present = self.rng.chance(35, 100);
                    let k = self.kv_key_for(&b, present);
                    let v = self.value();
                    let kb = k.bytes();
                    let how = pick_how(self.rng, &kb);
                    let vb = v.bytes();
                    let vhow = pick_how(self.rng, &vb);
                    let _ = work.at_mut(&path).unwrap().put(&kb, &vb);
                    ops.push(Op::Put { h, k, v, how, vhow });
                }
                1 => ops.push(Op::Get {
                    h,
                    k: self.key_for(&b, None),
                }),
                2 => ops.push(Op::GetKv {
                    h,
                    k: self.key_for(&b, None),
                }),
                3 => {
                    let present = self.rng.chance(85, 100);
                    let k = self.kv_key_for(&b, present);
                    let _ = work.at_mut(&path).unwrap().delete(&k.bytes());
                    ops.push(Op::Delete { h, k });
                }
                4 | 5 | 6 => {
                    let deep = path.len() >= self.cfg.max_depth;
                    let k = match choice {
                        4 => {
                            let p = self.rng.chance(1, 6);
                            self.bucket_name_for(&b, Some(p))
                        }
                        5 => {
                            let p = self.rng.chance(5, 6);
                            self.bucket_name_for(&b, Some(p))
                        }
                        _ => self.bucket_name_for(&b, None),
                    };
                    let kb = k.bytes();
                    let how = pick_how(self.rng, &kb);
                    let wb = work.at_mut(&path).unwrap();
                    let (ok, op) = match choice {
                        4 if !deep => (wb.create_bucket(&kb).is_ok(), Op::Create { h, k, how }),
                        6 if !deep => (
                            wb.get_or_create_bucket(&kb).is_ok(),
                            Op::GetOrCreate { h, k, how },
                        ),
                        _ => {
                            let ok = wb.get_bucket(&kb).is_ok();
                            let how = if ok && self.rng.chance(1, 3) { How::Listed } else { how };
                            (ok, Op::GetB { h, k, how })
                        }
                    };
                    if ok {
                        let mut p = path.clone();
                        p.push(kb);
                        hs.push(p);
                    } else {
                        hs.push_dead();
                    }
                    ops.push(op);
                }
                7 => {
                    let p = self.rng.chance(9, 10);
                    let k = self.bucket_name_for(&b, Some(p));
                    let kb = k.bytes();
                    let how = pick_how(self.rng, &kb);
                    if work.at_mut(&path).unwrap().delete_bucket(&kb).is_ok() {
                        let mut p = path.clone();
                        p.push(kb);
                        hs.on_bucket_deleted(&p);
                    }
                    ops.push(Op::DeleteB { h, k, how });
                }
                8 => ops.push(Op::Scan { h }),
                9 => ops.push(Op::Seek {
                    h,
                    k: self.key_for(&b, None),
                }),
                10 => {
                    let lo = self.bound(&b);
                    let hi = self.bound(&b);
                    ops.push(Op::Range { h, lo, hi });
                }
                11 => ops.push(Op::Buckets { h }),
                12 => ops.push(Op::KvPairs { h }),
                _ => ops.push(Op::NextInt { h }),
            }
        }
        let reopen = self.rng.below(100) < self.cfg.p_reopen;
        TxScript { ops, end, reopen }
    }
}

pub fn gen_history(rng: &mut Rng, cfg: &GenCfg) -> History {
    let mut g = Gen::new(rng, cfg.clone());
    g.history()
}
