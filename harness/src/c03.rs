//! C03 – a read-only transaction sees one frozen snapshot (single thread).
//! Random interleavings of opening / closing up to k readers with committing
//! and rolling-back writers; after EVERY step every open reader is re-read in
//! full and compared with the model state of the moment it began; the free-set
//! safety invariant and byte-stability of pinned pages are evaluated online.
use crate::exec::{self, ExecCfg, Run};
use crate::gen::{Gen, GenCfg};
use crate::model::MBucket;
use crate::ops::*;
use crate::report::{Ctx, Shard};
use crate::snap::{self, Pinned};
use crate::util::{self, Rng, Scratch};
use jammdb::{OpenOptions, Tx};
use serde::{Deserialize, Serialize};
use std::collections::BTreeSet;

#[derive(Clone, Debug, Serialize, Deserialize)]
pub enum Step {
    OpenReader,
    CloseReader(usize),
    Writer(TxScript),
    /// a write transaction during which (after its last operation, before its commit / drop) a reader opens
    WriterWithReaderInFlight(TxScript),
    /// the built-in consistency check (it opens a read-only transaction of its own) while readers are open
    Check,
}

#[derive(Clone, Debug, Serialize, Deserialize)]
pub struct Case {
    pub pagesize: u64,
    pub num_pages: usize,
    pub steps: Vec<Step>,
    pub origin: String,
}

struct Reader<'a> {
    tx: Tx<'a>,
    snap: MBucket,
    pinned: Option<Pinned>,
    born: u64,
}

#[derive(Default)]
pub struct St {
    pub steps: u64,
    pub max_readers: u64,
    pub reader_verifications: u64,
    pub invariant_evals: u64,
    pub pinned_rehashes: u64,
    pub commits: u64,
    pub rollbacks: u64,
    pub pages_rewritten_below_hwm: u64,
    pub pages_rewritten_while_reader_open: u64,
    pub max_reader_age_commits: u64,
    pub check_calls: u64,
    pub readers_opened: u64,
    pub readers_sharing_a_snapshot: u64,
    pub readers_opened_while_a_writer_was_in_flight: u64,
}

thread_local! {
    static FORBID_GROW: std::cell::Cell<bool> = std::cell::Cell::new(false);
}

pub const GROW_MSG: &str = "verif: commit would grow the file while a reader is open on this thread";

pub fn forbid_grow(on: bool) {
    FORBID_GROW.with(|f| f.set(on));
}

pub fn install_no_grow_handler() {
    jammdb::verif_hooks::set_handler(Some(std::sync::Arc::new(|p, _w| {
        if p == jammdb::verif_hooks::Point::CommitBeforeGrow && FORBID_GROW.with(|f| f.get()) {
            panic!("{}", GROW_MSG);
        }
    })));
}

pub fn gen_case(rng: &mut Rng, ps: u64, steps: usize, k: usize) -> Case {
    let profile = *rng.pick(&[0u8, 1, 1, 3, 4, 4]);
    let mut g = GenCfg::default_for(ps, profile);
    g.ops_per_tx = (3, 25);
    g.p_rollback = 15;
    g.p_reopen = 0;
    g.p_misuse = 0;
    g.max_value = (ps * 2) as usize;
    let mut grng = rng.fork();
    let mut gen = Gen::new(&mut grng, g);
    let mut committed = MBucket::default();
    let mut out = Vec::new();
    let mut open = 0usize;
    let mut tx_index = 0;
    for _ in 0..steps {
        let c = rng.below(100);
        if c < 22 && open < k {
            out.push(Step::OpenReader);
            open += 1;
        } else if c >= 96 {
            out.push(Step::Check);
        } else if c < 40 && open > 0 {
            out.push(Step::CloseReader(rng.usize(open)));
            open -= 1;
        } else {
            let mut work = committed.clone();
            let mut script = gen.tx_script(&mut work, tx_index);
            script.reopen = false;
            tx_index += 1;
            if script.end == End::Commit {
                committed = work;
            }
            if open < k && rng.chance(1, 6) {
                out.push(Step::WriterWithReaderInFlight(script));
                open += 1;
            } else {
                out.push(Step::Writer(script));
            }
        }
    }
    Case {
        pagesize: ps,
        num_pages: 8192,
        steps: out,
        origin: format!("profile={} k={}", crate::gen::profile_name(profile), k),
    }
}

/// A reader that stays open across several dozen commits while younger readers come and go: A opens,
/// `before_b` commits, B opens, commits until A has seen `a_age` of them, A closes (the OLDEST first),
/// a third reader opens, a dozen more commits, DB::check() now and then.
pub fn gen_long_lived_case(rng: &mut Rng, ps: u64, a_age: usize, before_b: usize) -> Case {
    let mut g = GenCfg::default_for(ps, 1);
    g.ops_per_tx = (2, 8);
    g.p_rollback = 0;
    g.p_reopen = 0;
    g.p_misuse = 0;
    g.max_value = ps as usize / 2;
    let mut grng = rng.fork();
    let mut gen = Gen::new(&mut grng, g);
    let mut committed = MBucket::default();
    let mut out = Vec::new();
    let mut tx_index = 0;
    let mut writer = |out: &mut Vec<Step>, committed: &mut MBucket| {
        let mut work = committed.clone();
        let mut script = gen.tx_script(&mut work, tx_index);
        script.reopen = false;
        script.end = End::Commit;
        tx_index += 1;
        *committed = work;
        out.push(Step::Writer(script));
    };
    for _ in 0..3 {
        writer(&mut out, &mut committed);
    }
    out.push(Step::OpenReader); // A = reader 0
    for i in 0..a_age {
        if i == before_b {
            out.push(Step::OpenReader); // B = reader 1
        }
        if i % 11 == 7 {
            out.push(Step::Check);
        }
        writer(&mut out, &mut committed);
    }
    out.push(Step::CloseReader(0)); // the oldest closes first
    out.push(Step::OpenReader); // C
    for i in 0..12 {
        if i == 5 {
            out.push(Step::Check);
        }
        writer(&mut out, &mut committed);
    }
    out.push(Step::CloseReader(0)); // B
    for _ in 0..3 {
        writer(&mut out, &mut committed);
    }
    Case { pagesize: ps, num_pages: 8192, steps: out, origin: format!("long-lived reader: the oldest reader sees {} commits, a second one opens after {}", a_age, before_b) }
}

/// returns Err(description) for an inconclusive run
pub fn run_case(c: &Case, path: &std::path::Path, st: &mut St) -> Result<Vec<(String, String)>, String> {
    let mut viol: Vec<(String, String)> = Vec::new();
    let _ = std::fs::remove_file(path);
    let db = OpenOptions::new()
        .pagesize(c.pagesize)
        .num_pages(c.num_pages)
        .open(path)
        .map_err(|e| format!("open: {}", e))?;
    let ps = c.pagesize;
    let cfg = ExecCfg {
        verify_after_commit: true,
        ..Default::default()
    };
    let mut run = Run::new(&cfg, ps);
    let mut committed = MBucket::default();
    let mut n_commits: u64 = 0;
    let r = util::catch(|| -> Result<(), String> {
        let readers: std::cell::RefCell<Vec<Reader>> = std::cell::RefCell::new(Vec::new());
        let mut hwm_bytes = 4 * ps;
        for (si, step) in c.steps.iter().enumerate() {
            st.steps += 1;
            match step {
                Step::OpenReader => {
                    let tx = db.tx(false).map_err(|e| e.to_string())?;
                    let img = snap::read_prefix(path, hwm_bytes);
                    let pinned = snap::pin_newest(&img, ps);
                    let ts = tx.verif_tx_state();
                    if let Some(p) = &pinned {
                        if p.meta.tx_id != ts.tx_id {
                            viol.push((
                                "reader-snapshot-id".into(),
                                format!("step {}: reader began at tx id {} but the newest header on file is {}", si, ts.tx_id, p.meta.tx_id),
                            ));
                        }
                    }
                    if readers.borrow().iter().any(|r| r.born == n_commits) {
                        st.readers_sharing_a_snapshot += 1;
                    }
                    readers.borrow_mut().push(Reader { tx, snap: committed.clone(), pinned, born: n_commits });
                    st.readers_opened += 1;
                    st.max_readers = st.max_readers.max(readers.borrow().len() as u64);
                }
                Step::Check => {
                    st.check_calls += 1;
                    if let Err(e) = db.check() {
                        viol.push(("db-check-fails-while-readers-are-open".into(), format!("step {}: DB::check() with {} reader(s) open: {}", si, readers.borrow().len(), e)));
                    }
                }
                Step::CloseReader(i) => {
                    if *i < readers.borrow().len() {
                        let r = readers.borrow_mut().remove(*i);
                        st.max_reader_age_commits = st.max_reader_age_commits.max(n_commits - r.born);
                        drop(r);
                    }
                }
                Step::Writer(script) | Step::WriterWithReaderInFlight(script) => {
                    let in_flight = matches!(step, Step::WriterWithReaderInFlight(_));
                    // what the next writer may allocate: its private free set right after begin
                    {
                        let probe = db.tx(true).map_err(|e| e.to_string())?;
                        let ts = probe.verif_tx_state();
                        drop(probe);
                        let free: BTreeSet<u64> = ts.free.iter().cloned().collect();
                        let img = snap::read_prefix(path, hwm_bytes);
                        if let Some(newest) = snap::pin_newest(&img, ps) {
                            st.invariant_evals += 1;
                            if let Some(p) = newest.reach.intersection(&free).next() {
                                viol.push((
                                    "free-set-intersects-newest-snapshot".into(),
                                    format!("step {}: page {} is allocatable by the next writer but reachable from the newest header (tx {})", si, p, newest.meta.tx_id),
                                ));
                            }
                        }
                        for r in readers.borrow().iter() {
                            if let Some(pin) = &r.pinned {
                                st.invariant_evals += 1;
                                if let Some(p) = pin.reach.iter().rev().next().filter(|p| **p >= ts.num_pages) {
                                    viol.push((
                                        "writer-high-water-mark-below-reader-snapshot".into(),
                                        format!("step {}: the next writer begins with a page count of {}, but page {} belongs to the snapshot (tx {}) of an open reader: the next page appended would overwrite it", si, ts.num_pages, p, pin.meta.tx_id),
                                    ));
                                }
                                if let Some(p) = pin.reach.intersection(&free).next() {
                                    viol.push((
                                        "free-set-intersects-reader-snapshot".into(),
                                        format!("step {}: page {} is allocatable by the next writer but reachable from the snapshot (tx {}) of an open reader", si, p, pin.meta.tx_id),
                                    ));
                                }
                            }
                        }
                    }
                    let before = snap::read_prefix(path, hwm_bytes);
                    FORBID_GROW.with(|f| f.set(!readers.borrow().is_empty() || in_flight));
                    if in_flight {
                        // the reader opens while the writer is still open: it must see (and keep) the state before this writer
                        let snap_before = committed.clone();
                        let born = n_commits;
                        let img = snap::read_prefix(path, hwm_bytes);
                        let pinned = snap::pin_newest(&img, ps);
                        let opened = std::cell::Cell::new(false);
                        let open_reader = || {
                            if let Ok(tx) = db.tx(false) {
                                readers.borrow_mut().push(Reader { tx, snap: snap_before.clone(), pinned: pinned.clone(), born });
                                opened.set(true);
                            }
                        };
                        exec::exec_tx_mid(&mut run, &db, path, script, si, &mut committed, Some(&open_reader));
                        if opened.get() {
                            st.readers_opened += 1;
                            st.readers_opened_while_a_writer_was_in_flight += 1;
                            st.max_readers = st.max_readers.max(readers.borrow().len() as u64);
                        }
                    } else {
                        exec::exec_tx(&mut run, &db, path, script, si, &mut committed);
                    }
                    FORBID_GROW.with(|f| f.set(false));
                    if run.out.aborted {
                        return Err(crate::report::workload_failure(run.out.violations.first(), &format!("writer step {} was cut short", si)));
                    }
                    if script.end == End::Commit {
                        n_commits += 1;
                        st.commits += 1;
                    } else {
                        st.rollbacks += 1;
                    }
                    // high-water mark from the newest header
                    let head = snap::read_prefix(path, 2 * ps);
                    if let (Some(m), _) = crate::fileck::choose_meta(&head, ps) {
                        hwm_bytes = hwm_bytes.max(m.num_pages * ps);
                    }
                    let after = snap::read_prefix(path, hwm_bytes);
                    // pages rewritten in place below the old high-water mark
                    let mut rewritten = 0;
                    let n_old = before.len() as u64 / ps;
                    for p in 2..n_old {
                        let a = (p * ps) as usize;
                        let b = a + ps as usize;
                        if b <= after.len() && before[a..b] != after[a..b] {
                            rewritten += 1;
                        }
                    }
                    st.pages_rewritten_below_hwm += rewritten;
                    if !readers.borrow().is_empty() {
                        st.pages_rewritten_while_reader_open += rewritten;
                    }
                    // copy-on-write rule: no byte of a pinned snapshot may change
                    for r in readers.borrow().iter() {
                        if let Some(pin) = &r.pinned {
                            st.pinned_rehashes += 1;
                            if snap::rehash(&after, ps, pin) != pin.hash {
                                viol.push((
                                    "pinned-page-bytes-changed".into(),
                                    format!("step {}: a page reachable from the snapshot (tx {}) of an open reader was overwritten", si, pin.meta.tx_id),
                                ));
                            }
                        }
                    }
                }
            }
            // every open reader must still see exactly its snapshot
            for r in readers.borrow().iter() {
                st.reader_verifications += 1;
                if let Some(d) = exec::verify_tx_against(&r.tx, &r.snap, true) {
                    viol.push((
                        format!("reader-view-changed:{}", exec::classify_diff(&d)),
                        format!("step {}: a reader opened after commit #{} no longer sees its snapshot: {}", si, r.born, d),
                    ));
                    return Ok(());
                }
            }
            if !viol.is_empty() {
                return Ok(());
            }
        }
        for r in readers.borrow_mut().drain(..) {
            st.max_reader_age_commits = st.max_reader_age_commits.max(n_commits - r.born);
        }
        Ok(())
    });
    FORBID_GROW.with(|f| f.set(false));
    match r {
        Ok(Ok(())) => Ok(viol),
        Ok(Err(e)) => Err(e),
        Err(p) if p.msg.contains(GROW_MSG) => Err("history needed a file growth while a reader was open on the same thread (documented self-deadlock); skipped".into()),
        Err(p) => {
            viol.push((
                format!("reader:{}", util::panic_signature(&p)),
                format!("panic at {}:{}: {}", p.file, p.line, p.msg),
            ));
            Ok(viol)
        }
    }
}

pub fn run(ctx: &Ctx) -> Shard {
    let mut shard = Shard::new("C03");
    let scratch = Scratch::new("C03");
    install_no_grow_handler();
    let mut st = St::default();
    let mut cases: Vec<Case> = Vec::new();
    if let Some(rp) = &ctx.replay {
        let doc: serde_json::Value = serde_json::from_slice(&std::fs::read(rp).expect("read replay")).expect("parse");
        cases.push(serde_json::from_value(doc["case"]["c03_case"].clone()).expect("case"));
    } else {
        let mut rng = Rng::new(ctx.shard_seed());
        let n = ctx.scale(if ctx.thorough() { 1500 } else { 600 });
        for i in 0..n {
            let ps = if ctx.thorough() && i % 3 == 2 { 4096 } else { 1024 };
            let steps = if ctx.thorough() { 120 } else { 60 };
            let k = 1 + rng.usize(4);
            cases.push(gen_case(&mut rng, ps, steps, k));
        }
        // directed: one reader that lives through 30..48 commits (one case per worker in quick, six in thorough)
        for j in 0..(if ctx.thorough() { 6 } else { 1 }) {
            let a_age = 30 + ((ctx.shard as usize + 5 * j) % 19);
            cases.push(gen_long_lived_case(&mut rng, 1024, a_age, 2 + (ctx.shard as usize + j) % 12));
        }
    }
    for c in &cases {
        let path = scratch.fresh("c3");
        let commits_before = st.commits;
        let reuse_before = st.pages_rewritten_while_reader_open;
        match run_case(c, &path, &mut st) {
            Ok(v) => {
                for (sig, detail) in v {
                    let replay = serde_json::json!({"kind": "c03", "c03_case": c});
                    shard.violation(ctx, &sig, &detail, &replay);
                }
            }
            Err(e) => shard.inconclusive_or_workload(ctx, "", &e, &serde_json::json!({"kind": "c03", "c03_case": c})),
        }
        let _ = std::fs::remove_file(&path);
        shard.evaluations += 1;
        let hh = util::fnv64(serde_json::to_string(&c.steps).unwrap().as_bytes());
        shard.distinct.insert(hh);
        // non-trivial: pages were rewritten in place while a reader was open
        if st.pages_rewritten_while_reader_open > reuse_before && st.commits > commits_before {
            shard.nontrivial.insert(hh);
        }
        if shard.samples.len() < 2 {
            let kinds: Vec<String> = c
                .steps
                .iter()
                .take(25)
                .map(|s| match s {
                    Step::OpenReader => "open-reader".to_string(),
                    Step::CloseReader(i) => format!("close-reader#{}", i),
                    Step::Writer(t) => format!("writer({} ops,{:?})", t.ops.len(), t.end),
                    Step::WriterWithReaderInFlight(t) => format!("writer({} ops,{:?})+reader-opens-before-it-ends", t.ops.len(), t.end),
                    Step::Check => "db.check()".to_string(),
                })
                .collect();
            shard.sample(serde_json::json!({"origin": c.origin, "pagesize": c.pagesize, "first_steps": kinds}));
        }
    }
    shard.count("steps", st.steps);
    shard.count("max_simultaneous_readers", 0);
    shard.count("max_readers", st.max_readers);
    shard.count("max_reader_age_in_commits", st.max_reader_age_commits);
    shard.count("db_check_calls_while_readers_were_open", st.check_calls);
    shard.count("readers_opened", st.readers_opened);
    shard.count("readers_sharing_a_snapshot_with_another", st.readers_sharing_a_snapshot);
    shard.count("readers_opened_while_a_writer_was_in_flight", st.readers_opened_while_a_writer_was_in_flight);
    shard.count("full_reader_verifications", st.reader_verifications);
    shard.count("free_set_invariant_evaluations", st.invariant_evals);
    shard.count("pinned_snapshot_rehashes", st.pinned_rehashes);
    shard.count("writer_commits", st.commits);
    shard.count("writer_rollbacks", st.rollbacks);
    shard.count("pages_rewritten_in_place", st.pages_rewritten_below_hwm);
    shard.count("pages_rewritten_in_place_while_a_reader_was_open", st.pages_rewritten_while_reader_open);
    shard
}
