//! Operation / history data types (serialisable, so that any violation can be
//! written out and replayed exactly).
use serde::{Deserialize, Serialize};

/// A key: `pre ++ '.' * fill ++ post`.
#[derive(Clone, Debug, PartialEq, Eq, Hash, Serialize, Deserialize, PartialOrd, Ord)]
pub struct K {
    pub pre: Vec<u8>,
    #[serde(default, skip_serializing_if = "is_zero")]
    pub fill: usize,
    #[serde(default, skip_serializing_if = "Vec::is_empty")]
    pub post: Vec<u8>,
}

fn is_zero(x: &usize) -> bool {
    *x == 0
}

impl K {
    pub fn lit(b: &[u8]) -> K {
        K {
            pre: b.to_vec(),
            fill: 0,
            post: vec![],
        }
    }
    pub fn bytes(&self) -> Vec<u8> {
        let mut v = Vec::with_capacity(self.pre.len() + self.fill + self.post.len());
        v.extend_from_slice(&self.pre);
        v.resize(self.pre.len() + self.fill, b'.');
        v.extend_from_slice(&self.post);
        v
    }
}

/// A value: `len` bytes determined by `tag` (unique per write).
#[derive(Clone, Debug, PartialEq, Eq, Hash, Serialize, Deserialize)]
pub struct V {
    pub tag: u64,
    pub len: usize,
}

impl V {
    pub fn bytes(&self) -> Vec<u8> {
        // the first 8 bytes are the tag itself (a read identifies the write it observed); the rest is a
        // stream keyed by the tag with no short period: data misplaced inside a multi-page value by any
        // distance reads back differently
        let t = self.tag.to_le_bytes();
        if self.tag < 1000 {
            // the pattern the golden files (written by the pinned release) were filled with
            return (0..self.len).map(|i| t[i % 8] ^ ((i / 8) as u8).wrapping_mul(31)).collect();
        }
        let mut x = self.tag ^ 0x9E37_79B9_7F4A_7C15;
        let mut word = [0u8; 8];
        (0..self.len)
            .map(|i| {
                if i < 8 {
                    return t[i];
                }
                if i % 8 == 0 {
                    x = x.wrapping_add(0x9E37_79B9_7F4A_7C15);
                    let mut z = x;
                    z = (z ^ (z >> 30)).wrapping_mul(0xBF58_476D_1CE4_E5B9);
                    z = (z ^ (z >> 27)).wrapping_mul(0x94D0_49BB_1331_11EB);
                    word = (z ^ (z >> 31)).to_le_bytes();
                }
                word[i % 8]
            })
            .collect()
    }
}

#[derive(Clone, Debug, PartialEq, Eq, Hash, Serialize, Deserialize)]
pub enum B {
    Inc(K),
    Exc(K),
    Unb,
}

/// How a key/value is handed to the API (which `ToBytes` implementation).
#[derive(Clone, Copy, Debug, PartialEq, Eq, Hash, Serialize, Deserialize)]
pub enum How {
    Slice,
    Str,
    Array,
    String,
    Vec,
    Bytes,
    BytesRef,
    /// only meaningful for get_bucket: the handle is taken from the parent's bucket listing
    /// (`Tx::buckets()` / `Bucket::buckets()`) instead of being looked up by name; a slice elsewhere
    Listed,
}

pub const ALL_HOW: [How; 7] = [
    How::Slice,
    How::Str,
    How::Array,
    How::String,
    How::Vec,
    How::Bytes,
    How::BytesRef,
];

/// Bucket handle index inside one transaction (handles are created by the
/// bucket-returning operations, in order).
pub type H = usize;

#[derive(Clone, Debug, PartialEq, Eq, Hash, Serialize, Deserialize)]
pub enum Op {
    // --- on the transaction (root level)
    TxCreate { k: K, how: How },
    TxGet { k: K, how: How },
    TxGetOrCreate { k: K, how: How },
    TxDelete { k: K, how: How },
    TxBuckets,
    // --- on a bucket handle
    Put { h: H, k: K, v: V, how: How, vhow: How },
    Get { h: H, k: K },
    GetKv { h: H, k: K },
    Delete { h: H, k: K },
    Create { h: H, k: K, how: How },
    GetB { h: H, k: K, how: How },
    GetOrCreate { h: H, k: K, how: How },
    DeleteB { h: H, k: K, how: How },
    Scan { h: H },
    Seek { h: H, k: K },
    Range { h: H, lo: B, hi: B },
    Buckets { h: H },
    KvPairs { h: H },
    NextInt { h: H },
    /// use of a handle whose bucket was deleted through its parent: must panic
    Misuse { h: H, what: u8 },
    /// placeholder left by the shrinker; `slot` keeps handle numbering stable
    Skip { slot: bool },
    /// the client drops bucket handle `h` (later operations do not use it): what was written through it must
    /// stay part of the transaction although nothing refers to that bucket any more
    DropH { h: H },
}

impl Op {
    pub fn name(&self) -> &'static str {
        match self {
            Op::TxCreate { .. } => "tx.create_bucket",
            Op::TxGet { .. } => "tx.get_bucket",
            Op::TxGetOrCreate { .. } => "tx.get_or_create_bucket",
            Op::TxDelete { .. } => "tx.delete_bucket",
            Op::TxBuckets => "tx.buckets",
            Op::Put { .. } => "put",
            Op::Get { .. } => "get",
            Op::GetKv { .. } => "get_kv",
            Op::Delete { .. } => "delete",
            Op::Create { .. } => "create_bucket",
            Op::GetB { .. } => "get_bucket",
            Op::GetOrCreate { .. } => "get_or_create_bucket",
            Op::DeleteB { .. } => "delete_bucket",
            Op::Scan { .. } => "cursor",
            Op::Seek { .. } => "seek",
            Op::Range { .. } => "range",
            Op::Buckets { .. } => "buckets",
            Op::KvPairs { .. } => "kv_pairs",
            Op::NextInt { .. } => "next_int",
            Op::Misuse { .. } => "misuse_deleted",
            Op::Skip { .. } => "skip",
            Op::DropH { .. } => "drop-handle",
        }
    }
    /// operations that hand out a bucket handle (they always take a handle slot,
    /// also when they fail, so that numbering does not depend on outcomes)
    pub fn takes_slot(&self) -> bool {
        matches!(
            self,
            Op::TxCreate { .. }
                | Op::TxGet { .. }
                | Op::TxGetOrCreate { .. }
                | Op::Create { .. }
                | Op::GetB { .. }
                | Op::GetOrCreate { .. }
                | Op::Skip { slot: true }
        )
    }
    pub fn is_read(&self) -> bool {
        matches!(
            self,
            Op::TxGet { .. }
                | Op::TxBuckets
                | Op::Get { .. }
                | Op::GetKv { .. }
                | Op::GetB { .. }
                | Op::Scan { .. }
                | Op::Seek { .. }
                | Op::Range { .. }
                | Op::Buckets { .. }
                | Op::KvPairs { .. }
                | Op::NextInt { .. }
        )
    }
}

#[derive(Clone, Copy, Debug, PartialEq, Eq, Hash, Serialize, Deserialize)]
pub enum End {
    Commit,
    Rollback,
}

#[derive(Clone, Debug, PartialEq, Eq, Hash, Serialize, Deserialize)]
pub struct TxScript {
    pub ops: Vec<Op>,
    pub end: End,
    /// close and reopen the database after this transaction
    #[serde(default)]
    pub reopen: bool,
}

#[derive(Clone, Debug, PartialEq, Eq, Hash, Serialize, Deserialize)]
pub struct History {
    pub pagesize: u64,
    pub num_pages: usize,
    #[serde(default)]
    pub strict: bool,
    #[serde(default)]
    pub populate: bool,
    pub txs: Vec<TxScript>,
    /// free-text origin (generator profile, seed) for the reader
    #[serde(default)]
    pub origin: String,
    /// read-only transactions held open across write transactions: (opened before tx a, closed after tx b).
    /// Such histories run on a pre-sized file and never reopen (a commit that grows the file while a reader
    /// is open on the same thread would wait for itself - the documented single-thread limitation).
    #[serde(default, skip_serializing_if = "Vec::is_empty")]
    pub pins: Vec<(usize, usize)>,
}

impl History {
    pub fn n_ops(&self) -> usize {
        self.txs.iter().map(|t| t.ops.len()).sum()
    }
    pub fn hash(&self) -> u64 {
        crate::util::fnv64(serde_json::to_string(&self.txs).unwrap().as_bytes())
    }
}
