//! Shape-directed enumerator (DESIGN.md §2.3): builds one-, two- and
//! three-level trees from fixed-width keys, measures the real leaf layout with
//! the independent parser, and then enumerates *every subset* of a window of
//! adjacent keys as deletions / insertions applied in one transaction.
//! Also the directed "nested bucket deletion" family for C05.
use crate::exec::{self, ExecCfg};
use crate::fileck;
use crate::ops::*;
use std::path::Path;

#[derive(Clone, Debug)]
pub struct BaseShape {
    pub name: &'static str,
    pub n_keys: usize,
    pub key_len: usize,
    pub val_len: usize,
    /// every `bucket_every`-th entry (i % n == 1) is a nested bucket instead of a pair
    pub bucket_every: Option<usize>,
}

pub fn base_shapes(ps: u64, thorough: bool) -> Vec<BaseShape> {
    let ps = ps as usize;
    let mut v = vec![
        BaseShape {
            name: "one-leaf",
            n_keys: 4,
            key_len: 8,
            val_len: ps / 10,
            bucket_every: None,
        },
        BaseShape {
            name: "two-level-2-per-leaf",
            n_keys: 10,
            key_len: 8,
            val_len: ps / 5,
            bucket_every: None,
        },
        BaseShape {
            name: "three-level",
            n_keys: 44,
            key_len: 40,
            val_len: ps / 5,
            bucket_every: None,
        },
    ];
    if thorough {
        v.push(BaseShape {
            name: "two-level-4-per-leaf",
            n_keys: 14,
            key_len: 8,
            val_len: ps / 10,
            bucket_every: None,
        });
        v.push(BaseShape {
            name: "two-level-with-buckets",
            n_keys: 12,
            key_len: 8,
            val_len: ps / 5,
            bucket_every: Some(3),
        });
        v.push(BaseShape {
            name: "three-level-with-buckets",
            n_keys: 44,
            key_len: 40,
            val_len: ps / 5,
            bucket_every: Some(4),
        });
    } else {
        v.push(BaseShape {
            name: "two-level-with-buckets",
            n_keys: 9,
            key_len: 8,
            val_len: ps / 5,
            bucket_every: Some(3),
        });
    }
    v
}

fn key(i: usize, sub: usize, len: usize) -> K {
    let pre = format!("s{:04}", i * 10 + sub).into_bytes();
    K {
        fill: len.saturating_sub(pre.len()),
        pre,
        post: vec![],
    }
}

fn is_bucket(shape: &BaseShape, i: usize) -> bool {
    matches!(shape.bucket_every, Some(n) if i % n == 1)
}

pub fn build_tx(shape: &BaseShape) -> TxScript {
    let mut ops = vec![Op::TxCreate {
        k: K::lit(b"t"),
        how: How::Slice,
    }];
    let mut nh = 1; // handle 0 = bucket t
    for i in 0..shape.n_keys {
        let k = key(i, 0, shape.key_len);
        if is_bucket(shape, i) {
            ops.push(Op::Create {
                h: 0,
                k,
                how: How::Vec,
            });
            ops.push(Op::Put {
                h: nh,
                k: K::lit(b"inner"),
                v: V {
                    tag: 7000 + i as u64,
                    len: 20,
                },
                how: How::Slice,
                vhow: How::Slice,
            });
            nh += 1;
        } else {
            ops.push(Op::Put {
                h: 0,
                k,
                v: V {
                    tag: 1000 + i as u64,
                    len: shape.val_len,
                },
                how: How::Slice,
                vhow: How::Vec,
            });
        }
    }
    TxScript {
        ops,
        end: End::Commit,
        reopen: false,
    }
}

#[derive(Clone, Debug)]
pub struct Plan {
    pub shape: BaseShape,
    pub pagesize: u64,
    pub depth: u32,
    /// key indices per leaf of bucket "t", in order
    pub leaves: Vec<Vec<usize>>,
    /// windows of key indices
    pub windows: Vec<Vec<usize>>,
}

/// Build the base tree once and read its real layout.
pub fn plan(shape: &BaseShape, ps: u64, scratch: &Path, window: usize) -> Result<Plan, String> {
    let h = History {
        pagesize: ps,
        num_pages: 8,
        strict: false,
        populate: false,
        txs: vec![build_tx(shape)],
        origin: format!("shape {}", shape.name),
        pins: vec![],
    };
    let _ = std::fs::remove_file(scratch);
    let out = exec::run_history(&h, &ExecCfg::default(), scratch);
    if out.aborted {
        let _ = std::fs::remove_file(scratch);
        return Err(format!(
            "building base shape {} failed: {:?}",
            shape.name,
            out.violations.first().map(|v| v.detail.clone())
        ));
    }
    let rep = fileck::check_file(scratch, ps).map_err(|e| e.to_string())?;
    let _ = std::fs::remove_file(scratch);
    let all_keys: Vec<Vec<u8>> = (0..shape.n_keys)
        .map(|i| key(i, 0, shape.key_len).bytes())
        .collect();
    let mut leaves = Vec::new();
    let mut depth = 0;
    for l in rep.leaves.iter().filter(|l| l.bucket == "/'t'") {
        depth = depth.max(l.depth);
        let idx: Vec<usize> = l
            .keys
            .iter()
            .filter_map(|k| all_keys.iter().position(|a| a == k))
            .collect();
        leaves.push(idx);
    }
    let n = shape.n_keys;
    let w = window.min(n);
    let mut windows: Vec<Vec<usize>> = Vec::new();
    let mut add = |start: usize| {
        let s = start.min(n - w);
        let win: Vec<usize> = (s..s + w).collect();
        if !windows.contains(&win) {
            windows.push(win);
        }
    };
    add(0);
    add(n - w);
    // a window centred on the boundary between the two middle leaves
    if leaves.len() >= 3 {
        let mid = leaves.len() / 2;
        let b = leaves[mid].first().cloned().unwrap_or(n / 2);
        add(b.saturating_sub(w / 2));
    }
    // for three-level trees: a window that straddles a branch-page boundary;
    // branch pages hold consecutive leaves, approximate by thirds
    if depth >= 3 {
        let third = leaves.len() / 3;
        if let Some(l) = leaves.get(third) {
            add(l.first().cloned().unwrap_or(0).saturating_sub(w / 2));
        }
    }
    Ok(Plan {
        shape: shape.clone(),
        pagesize: ps,
        depth,
        leaves,
        windows,
    })
}

pub const N_FAMILIES: usize = 7;
pub fn family_name(f: usize) -> &'static str {
    match f {
        0 => "delete-ascending",
        1 => "delete-descending",
        2 => "insert-between",
        3 => "delete-commit-reinsert",
        4 => "delete-and-insert-neighbour",
        5 => "delete-and-modify-surviving-nested-buckets",
        _ => "modify-nested-buckets-then-delete",
    }
}

/// History = build, then one transaction applying the subset `mask` of window `wi`.
pub fn subset_history(p: &Plan, wi: usize, mask: u32, family: usize) -> History {
    let win = &p.windows[wi];
    let mut chosen: Vec<usize> = win
        .iter()
        .enumerate()
        .filter(|(b, _)| mask & (1 << b) != 0)
        .map(|(_, i)| *i)
        .collect();
    if family == 1 {
        chosen.reverse();
    }
    let sh = &p.shape;
    let mut ops = vec![Op::TxGet {
        k: K::lit(b"t"),
        how: How::Str,
    }];
    let del = |i: usize| -> Op {
        if is_bucket(sh, i) {
            Op::DeleteB {
                h: 0,
                k: key(i, 0, sh.key_len),
                how: How::Slice,
            }
        } else {
            Op::Delete {
                h: 0,
                k: key(i, 0, sh.key_len),
            }
        }
    };
    let ins = |i: usize, tag: u64| -> Op {
        Op::Put {
            h: 0,
            k: key(i, 5, sh.key_len),
            v: V {
                tag,
                len: sh.val_len,
            },
            how: How::Vec,
            vhow: How::Slice,
        }
    };
    let mut txs = vec![build_tx(sh)];
    match family {
        0 | 1 => {
            for i in &chosen {
                ops.push(del(*i));
            }
            ops.push(Op::Scan { h: 0 });
            txs.push(TxScript {
                ops,
                end: End::Commit,
                reopen: false,
            });
        }
        2 => {
            for (n, i) in chosen.iter().enumerate() {
                ops.push(ins(*i, 5000 + n as u64));
            }
            ops.push(Op::Scan { h: 0 });
            txs.push(TxScript {
                ops,
                end: End::Commit,
                reopen: false,
            });
        }
        3 => {
            for i in &chosen {
                ops.push(del(*i));
            }
            txs.push(TxScript {
                ops,
                end: End::Commit,
                reopen: false,
            });
            let mut ops2 = vec![Op::TxGet {
                k: K::lit(b"t"),
                how: How::Slice,
            }];
            for (n, i) in chosen.iter().enumerate() {
                if is_bucket(sh, *i) {
                    ops2.push(Op::Create {
                        h: 0,
                        k: key(*i, 0, sh.key_len),
                        how: How::Slice,
                    });
                } else {
                    ops2.push(Op::Put {
                        h: 0,
                        k: key(*i, 0, sh.key_len),
                        v: V {
                            tag: 6000 + n as u64,
                            len: sh.val_len,
                        },
                        how: How::Slice,
                        vhow: How::Slice,
                    });
                }
            }
            txs.push(TxScript {
                ops: ops2,
                end: End::Commit,
                reopen: true,
            });
        }
        4 => {
            for (n, i) in chosen.iter().enumerate() {
                ops.push(del(*i));
                if n % 2 == 0 {
                    ops.push(ins(*i, 8000 + n as u64));
                }
            }
            ops.push(Op::Scan { h: 0 });
            txs.push(TxScript {
                ops,
                end: End::Commit,
                reopen: false,
            });
        }
        _ => {
            // nested buckets that survive are modified in the same transaction as the deletions
            let survivors: Vec<usize> = (0..sh.n_keys).filter(|i| is_bucket(sh, *i) && !chosen.contains(i)).collect();
            let mut nh = 1;
            let mut touch = |ops: &mut Vec<Op>| {
                for (n, i) in survivors.iter().enumerate() {
                    ops.push(Op::GetB { h: 0, k: key(*i, 0, sh.key_len), how: How::Slice });
                    ops.push(Op::Put { h: nh, k: K::lit(b"touched"), v: V { tag: 9500 + n as u64, len: 30 + 200 * (n % 3) }, how: How::Slice, vhow: How::Slice });
                    if n % 2 == 1 {
                        ops.push(Op::Delete { h: nh, k: K::lit(b"inner") });
                    }
                    nh += 1;
                }
            };
            if family == 6 {
                touch(&mut ops);
            }
            for i in &chosen {
                ops.push(del(*i));
            }
            if family == 5 {
                touch(&mut ops);
            }
            ops.push(Op::Scan { h: 0 });
            txs.push(TxScript { ops, end: End::Commit, reopen: false });
            // and once more afterwards, so that pages freed twice or never written show up
            txs.push(TxScript {
                ops: vec![Op::TxGet { k: K::lit(b"t"), how: How::Slice }, Op::Put { h: 0, k: key(0, 7, sh.key_len), v: V { tag: 9999, len: sh.val_len }, how: How::Slice, vhow: How::Slice }],
                end: End::Commit,
                reopen: true,
            });
        }
    }
    History {
        pagesize: p.pagesize,
        num_pages: 8,
        strict: false,
        populate: false,
        txs,
        pins: vec![],
        origin: format!(
            "shape={} depth={} leaves={} window={:?} mask={:#b} family={}",
            sh.name,
            p.depth,
            p.leaves.len(),
            (win.first(), win.last()),
            mask,
            family_name(family)
        ),
    }
}

/// Directed family: free lists that span several pages, growing and shrinking by more than a page
/// in one commit (delete a big bucket, refill, delete again), also with multi-page values.
pub fn big_freelist_history(ps: u64, index: usize) -> Option<History> {
    if index >= 6 {
        return None;
    }
    let n_keys = [200usize, 320, 450][index % 3];
    let vlen = if index >= 3 { 2 * ps as usize + 50 } else { ps as usize - 120 };
    let mk = |h: H, j: usize, tag: u64, len: usize| Op::Put { h, k: K { pre: format!("big{:05}", j).into_bytes(), fill: 6, post: vec![] }, v: V { tag, len }, how: How::Slice, vhow: How::Slice };
    let mut txs = Vec::new();
    // tx0: a big bucket and a small one
    let mut ops = vec![Op::TxCreate { k: K::lit(b"big"), how: How::Slice }, Op::TxCreate { k: K::lit(b"keep"), how: How::Slice }];
    for j in 0..n_keys {
        ops.push(mk(0, j, 100 + j as u64, vlen));
    }
    for j in 0..5 {
        ops.push(mk(1, j, 900 + j as u64, 40));
    }
    txs.push(TxScript { ops, end: End::Commit, reopen: false });
    // tx1: delete the big bucket -> hundreds of free pages
    txs.push(TxScript { ops: vec![Op::TxDelete { k: K::lit(b"big"), how: How::Slice }], end: End::Commit, reopen: index % 2 == 0 });
    // tx2: small change (free list rewritten, still long)
    txs.push(TxScript { ops: vec![Op::TxGet { k: K::lit(b"keep"), how: How::Slice }, mk(0, 1, 2000, 60)], end: End::Commit, reopen: false });
    // tx3: refill most of it in one go -> the free list shrinks by several pages in one commit
    let mut ops = vec![Op::TxCreate { k: K::lit(b"big"), how: How::Slice }];
    for j in 0..(n_keys * 4 / 5) {
        ops.push(mk(0, j, 3000 + j as u64, vlen));
    }
    txs.push(TxScript { ops, end: End::Commit, reopen: false });
    // tx4: delete half of the keys one by one (many merges), tx5: small change, tx6: delete the bucket again
    let mut ops = vec![Op::TxGet { k: K::lit(b"big"), how: How::Slice }];
    for j in (0..(n_keys * 4 / 5)).step_by(2) {
        ops.push(Op::Delete { h: 0, k: K { pre: format!("big{:05}", j).into_bytes(), fill: 6, post: vec![] } });
    }
    txs.push(TxScript { ops, end: End::Commit, reopen: false });
    txs.push(TxScript { ops: vec![Op::TxGet { k: K::lit(b"keep"), how: How::Slice }, mk(0, 2, 4000, 70)], end: End::Commit, reopen: true });
    txs.push(TxScript { ops: vec![Op::TxDelete { k: K::lit(b"big"), how: How::Slice }, Op::TxGet { k: K::lit(b"keep"), how: How::Slice }, mk(1, 3, 5000, 80)], end: End::Commit, reopen: false });
    txs.push(TxScript { ops: vec![Op::TxGet { k: K::lit(b"keep"), how: How::Slice }, mk(0, 4, 6000, 90)], end: End::Commit, reopen: true });
    Some(History { pagesize: ps, num_pages: 8, strict: false, populate: false, txs, origin: format!("big free list: {} keys x {} B values", n_keys, vlen), pins: vec![] })
}

/// Directed family: ONE commit that has to extend the file by more than one 8 MiB allocation step
/// (and not by a whole number of steps), read back in the same process without reopening, followed
/// by small commits, a rollback and a second large commit from the already-grown file.
pub fn big_commit_history(ps: u64, index: usize) -> Option<History> {
    // (number of values, bytes each) written by the one large transaction
    let plans: [(usize, usize); 6] = [(12, 1 << 20), (1, 9 * (1 << 20) + 100), (21, 1_000_000), (2600, 4000), (3, 6 * (1 << 20) + 17), (40, 430_000)];
    if index >= plans.len() {
        return None;
    }
    let (n, len) = plans[index];
    let ps = if index % 2 == 1 { 4096 } else { ps };
    let key = |j: usize| K { pre: format!("blob{:05}", j).into_bytes(), fill: 3, post: vec![] };
    let put = |h: H, j: usize, tag: u64, len: usize| Op::Put { h, k: key(j), v: V { tag, len }, how: How::Slice, vhow: How::Slice };
    let mut txs = Vec::new();
    // tx0: a little data so that the big commit starts from a small, non-empty file
    txs.push(TxScript { ops: vec![Op::TxCreate { k: K::lit(b"blobs"), how: How::Slice }, Op::TxCreate { k: K::lit(b"small"), how: How::Slice }, put(1, 0, 1, 30), put(1, 1, 2, 300)], end: End::Commit, reopen: false });
    // tx1: the large commit
    let mut ops = vec![Op::TxGet { k: K::lit(b"blobs"), how: How::Slice }];
    for j in 0..n {
        ops.push(put(0, j, 1000 + j as u64, len));
    }
    txs.push(TxScript { ops, end: End::Commit, reopen: false });
    // tx2: small commit on the same handle, tx3: rollback of a large transaction, tx4: read-mostly commit
    txs.push(TxScript { ops: vec![Op::TxGet { k: K::lit(b"small"), how: How::Slice }, put(0, 2, 3, 50), Op::TxGet { k: K::lit(b"blobs"), how: How::Slice }, Op::Scan { h: 1 }], end: End::Commit, reopen: false });
    let mut ops = vec![Op::TxGet { k: K::lit(b"blobs"), how: How::Slice }];
    for j in 0..n.min(16) {
        ops.push(put(0, 100_000 + j, 5000 + j as u64, len));
    }
    txs.push(TxScript { ops, end: End::Rollback, reopen: false });
    txs.push(TxScript { ops: vec![Op::TxGet { k: K::lit(b"blobs"), how: How::Slice }, Op::Get { h: 0, k: key(0) }, Op::Get { h: 0, k: key(n - 1) }, put(0, 0, 7000, 10)], end: End::Commit, reopen: index % 3 == 0 });
    // tx5: a second large commit (about 1.6 x the first) on top of the grown file; tx6: delete it all again
    let mut ops = vec![Op::TxGet { k: K::lit(b"blobs"), how: How::Slice }];
    for j in 0..(n * 8 / 5).max(2) {
        ops.push(put(0, 200_000 + j, 9000 + j as u64, len));
    }
    txs.push(TxScript { ops, end: End::Commit, reopen: false });
    txs.push(TxScript { ops: vec![Op::TxDelete { k: K::lit(b"blobs"), how: How::Slice }, Op::TxGet { k: K::lit(b"small"), how: How::Slice }, put(1, 3, 9999, 20)], end: End::Commit, reopen: false });
    txs.push(TxScript { ops: vec![Op::TxGet { k: K::lit(b"small"), how: How::Slice }, put(0, 4, 10000, 20), Op::TxBuckets], end: End::Commit, reopen: true });
    Some(History { pagesize: ps, num_pages: 4, strict: false, populate: false, txs, origin: format!("big commit: {} values x {} B in one transaction, page size {}", n, len, ps), pins: vec![] })
}

/// Directed family: deep trees.  Keys of about a fifth of a page give branch pages a fan-out of
/// four, so a few hundred keys make a tree of five or six levels; ranges and patterns of keys are
/// then deleted and re-inserted so that merges and root collapses cascade through several levels.
pub fn deep_tree_history(ps: u64, index: usize) -> Option<History> {
    if index >= 8 {
        return None;
    }
    let n = if index < 6 { 420usize } else { 900 };
    let klen = ps as usize / 5;
    let key = |j: usize| K { pre: format!("d{:05}", j * 3).into_bytes(), fill: klen, post: vec![b'#'] };
    let mid = |j: usize| K { pre: format!("d{:05}", j * 3 + 1).into_bytes(), fill: klen, post: vec![b'#'] };
    let put = |k: K, tag: u64, len: usize| Op::Put { h: 0, k, v: V { tag, len }, how: How::Slice, vhow: How::Slice };
    let get = || Op::TxGet { k: K::lit(b"deep"), how: How::Slice };
    let mut txs = Vec::new();
    let mut ops = vec![Op::TxCreate { k: K::lit(b"deep"), how: How::Slice }];
    for j in 0..n {
        ops.push(put(key(j), j as u64 + 1, 20 + j % 30));
    }
    // a few nested buckets among the keys
    for j in [n / 7, n / 2, n - 3] {
        ops.push(Op::Create { h: 0, k: mid(j), how: How::Slice });
    }
    txs.push(TxScript { ops, end: End::Commit, reopen: index % 2 == 1 });
    let del_range = |a: usize, b: usize, step: usize| -> Vec<Op> {
        let mut ops = vec![get()];
        for j in (a..b).step_by(step) {
            ops.push(Op::Delete { h: 0, k: key(j) });
        }
        ops.push(Op::Scan { h: 0 });
        ops
    };
    let plans: Vec<Vec<Op>> = match index % 6 {
        0 => vec![del_range(0, n * 3 / 4, 1), del_range(n * 3 / 4, n - 2, 1)],
        1 => vec![del_range(n / 4, n * 3 / 4, 1), del_range(0, n / 4, 1), del_range(n * 3 / 4, n, 1)],
        2 => vec![del_range(0, n, 2), del_range(1, n / 2, 2), del_range(n / 2 + 1, n, 2)],
        3 => vec![del_range(2, n - 1, 1)],
        4 => vec![del_range(n / 2, n, 1), del_range(0, n / 2 - 1, 1)],
        _ => vec![del_range(0, n, 3), del_range(1, n, 3), del_range(2, n, 3)],
    };
    let np = plans.len();
    for (pi, mut ops) in plans.into_iter().enumerate() {
        if pi == 1 {
            // insertions between the survivors in the same transaction as the deletions
            for j in (0..n).step_by(17) {
                ops.push(put(mid(j + 1), 50_000 + j as u64, 40));
            }
        }
        txs.push(TxScript { ops, end: End::Commit, reopen: pi + 1 == np && index % 3 == 0 });
        // a rolled-back attempt to delete everything that is left
        if pi == 0 {
            txs.push(TxScript { ops: vec![Op::TxDelete { k: K::lit(b"deep"), how: How::Slice }], end: End::Rollback, reopen: false });
        }
    }
    // refill a part, then delete the whole bucket
    let mut ops = vec![get()];
    for j in (0..n).step_by(2) {
        ops.push(put(key(j), 90_000 + j as u64, 25));
    }
    ops.push(Op::Buckets { h: 0 });
    txs.push(TxScript { ops, end: End::Commit, reopen: false });
    txs.push(TxScript { ops: vec![Op::TxDelete { k: K::lit(b"deep"), how: How::Slice }, Op::TxCreate { k: K::lit(b"after"), how: How::Slice }, put(K::lit(b"x"), 7, 10)], end: End::Commit, reopen: true });
    Some(History { pagesize: ps, num_pages: 8, strict: false, populate: false, txs, origin: format!("deep tree: {} keys of {} B, deletion plan {}", n, klen + 7, index % 6), pins: vec![] })
}

/// Directed family: exact sizes.  One value is overwritten with every length from 0 to a little over
/// three pages, one byte at a time, so the leaf that holds it passes through every size - exactly one
/// page, exactly two, one byte more, one byte less - alone in its leaf, next to three neighbours (the
/// leaf crosses the split threshold at some length), and inside a nested bucket.
pub fn exact_fit_history(ps: u64, index: usize) -> Option<History> {
    if index >= 6 {
        return None;
    }
    let p = ps as usize;
    let put = |h: H, k: &[u8], tag: u64, len: usize| Op::Put { h, k: K::lit(k), v: V { tag, len }, how: How::Slice, vhow: How::Slice };
    let mut txs = Vec::new();
    let (lo, hi, neighbours, nested, keylen): (usize, usize, usize, bool, usize) = match index {
        0 => (0, 3 * p + 64, 0, false, 3),
        1 => (0, 2 * p + 64, 3, false, 3),
        2 => (0, 2 * p + 64, 0, true, 1),
        3 => (p - 200, 4 * p + 64, 1, false, 0),
        4 => (0, p + 64, 7, false, 40),
        _ => (0, 2 * p + 64, 2, true, 17),
    };
    let key: Vec<u8> = if keylen == 0 { vec![] } else { vec![b'm'; keylen] };
    let mut ops = vec![Op::TxCreate { k: K::lit(b"fit"), how: How::Slice }];
    let mut h = 0;
    if nested {
        ops.push(Op::Create { h: 0, k: K::lit(b"inner"), how: How::Slice });
        ops.push(put(0, b"beside", 5, 30));
        h = 1;
    }
    for j in 0..neighbours {
        // neighbours sort on both sides of the swept key
        let nk = if j % 2 == 0 { format!("a{}", j) } else { format!("z{}", j) };
        ops.push(put(h, nk.as_bytes(), 10 + j as u64, 150 + 20 * j));
    }
    txs.push(TxScript { ops, end: End::Commit, reopen: false });
    for len in lo..=hi {
        let mut ops = vec![Op::TxGet { k: K::lit(b"fit"), how: How::Slice }];
        if nested {
            ops.push(Op::GetB { h: 0, k: K::lit(b"inner"), how: How::Slice });
        }
        ops.push(put(h, &key, 1000 + len as u64, len));
        txs.push(TxScript { ops, end: End::Commit, reopen: len % 509 == 7 });
    }
    Some(History { pagesize: ps, num_pages: 16, strict: false, populate: false, txs, origin: format!("exact fit: one value swept over {}..={} B with {} neighbours{}", lo, hi, neighbours, if nested { " in a nested bucket" } else { "" }), pins: vec![] })
}

/// Directed family: the free list shrinks (and grows) by about one entry per commit through the
/// lengths at which it exactly fills one page and two pages, with reopens on the way.
pub fn freelist_walk_history(ps: u64, index: usize) -> Option<History> {
    if index >= 4 {
        return None;
    }
    let p = ps as usize;
    let per_page = (p - 40) / 8;
    // free this many pages at once: a little over one (or two) free-list pages
    let free_pages = if index % 2 == 0 { per_page + 25 } else { 2 * per_page + 25 };
    let put = |h: H, k: String, tag: u64, len: usize| Op::Put { h, k: K::lit(k.as_bytes()), v: V { tag, len }, how: How::Slice, vhow: How::Slice };
    let mut txs = Vec::new();
    let mut ops = vec![Op::TxCreate { k: K::lit(b"bulk"), how: How::Slice }, Op::TxCreate { k: K::lit(b"grow"), how: How::Slice }];
    for j in 0..free_pages {
        // one overflow-free page per value: a value of most of a page
        ops.push(put(0, format!("b{:05}", j), 100 + j as u64, p - 150));
    }
    txs.push(TxScript { ops, end: End::Commit, reopen: false });
    txs.push(TxScript { ops: vec![Op::TxDelete { k: K::lit(b"bulk"), how: How::Slice }], end: End::Commit, reopen: index >= 2 });
    // consume the free pages one or two per commit
    for i in 0..(free_pages + 30) {
        let mut ops = vec![Op::TxGet { k: K::lit(b"grow"), how: How::Slice }];
        ops.push(put(0, format!("g{:05}", i), 5000 + i as u64, p - 150));
        if index % 2 == 1 && i % 3 == 0 {
            ops.push(put(0, format!("h{:05}", i), 9000 + i as u64, p - 150));
        }
        // (variants 2 and 3 close and reopen the file after EVERY commit: each free-list length is also read back)
        txs.push(TxScript { ops, end: End::Commit, reopen: index >= 2 || i % 41 == 40 });
    }
    // and give them back a few at a time
    for i in 0..40 {
        let mut ops = vec![Op::TxGet { k: K::lit(b"grow"), how: How::Slice }];
        for j in 0..(1 + i % 4) {
            ops.push(Op::Delete { h: 0, k: K::lit(format!("g{:05}", i * 4 + j).as_bytes()) });
        }
        txs.push(TxScript { ops, end: End::Commit, reopen: index >= 2 });
    }
    Some(History { pagesize: ps, num_pages: 8, strict: false, populate: false, txs, origin: format!("free-list walk: {} pages freed at once, then consumed one commit at a time (a free-list page holds {})", free_pages, per_page), pins: vec![] })
}

/// Directed family: a "directory" bucket whose entries are all nested buckets with names of a fifth
/// of a page (four levels with a few dozen of them).  One transaction deletes bucket `d` and writes
/// into bucket `w`: the deletion makes branch pages merge while the written bucket's entry has to be
/// found again (and rewritten) in the restructured tree.
pub fn bucket_dir_history(ps: u64, n: usize, d: usize, w: usize, extra_deletes: usize) -> History {
    let name = |j: usize| K { pre: format!("n{:03}", j).into_bytes(), fill: ps as usize / 5 - 8, post: vec![] };
    let put = |h: H, k: &[u8], tag: u64, len: usize| Op::Put { h, k: K::lit(k), v: V { tag, len }, how: How::Slice, vhow: How::Slice };
    let mut ops = vec![Op::TxCreate { k: K::lit(b"top"), how: How::Slice }];
    for j in 0..n {
        ops.push(Op::Create { h: 0, k: name(j), how: How::Slice });
        ops.push(put(j + 1, b"k", j as u64 + 1, 10));
    }
    let tx0 = TxScript { ops, end: End::Commit, reopen: (d + w) % 3 == 0 };
    let mut ops = vec![Op::TxGet { k: K::lit(b"top"), how: How::Slice }];
    let mut nh = 1;
    if w != d {
        ops.push(Op::GetB { h: 0, k: name(w), how: if (d + w) % 2 == 0 { How::Slice } else { How::Listed } });
        ops.push(put(nh, b"written", 7000 + w as u64, 25));
        nh += 1;
    }
    for x in 0..=extra_deletes {
        let t = d + x;
        if t < n && t != w {
            ops.push(Op::DeleteB { h: 0, k: name(t), how: How::Slice });
        }
    }
    ops.push(Op::Buckets { h: 0 });
    ops.push(Op::NextInt { h: 0 });
    let _ = nh;
    let tx1 = TxScript { ops, end: End::Commit, reopen: false };
    let tx2 = TxScript { ops: vec![Op::TxGet { k: K::lit(b"top"), how: How::Slice }, Op::Buckets { h: 0 }, Op::Create { h: 0, k: K::lit(b"zz-new"), how: How::Slice }], end: End::Commit, reopen: true };
    History { pagesize: ps, num_pages: 8, strict: false, populate: false, txs: vec![tx0, tx1, tx2], origin: format!("bucket directory: {} nested buckets, delete #{} (+{}), write into #{}", n, d, extra_deletes, w), pins: vec![] }
}

/// Directed family: a *wide* bucket (`n` >= 65 sub-buckets, each with a bucket `inner` of its own) in which one
/// transaction writes two levels down (`top/sNNN/inner`), lets go of every handle on the way, then opens ALL
/// the sub-buckets (a listing; point lookups of each), and then comes back to what it wrote - by walking
/// down from `top` again, and by committing.  Whatever an implementation does with the buckets a transaction
/// has opened (a cache with a size limit, an eviction rule), a write must not get lost with its handles
/// (seeded change C07-o capped the per-bucket cache of opened sub-buckets at 64 entries and evicted the
/// "unreferenced and not directly modified" ones - the middle bucket of such a write is exactly that).
pub fn wide_dir_history(ps: u64, n: usize, target: usize, variant: usize) -> History {
    let name = |j: usize| K::lit(format!("s{:03}", j).as_bytes());
    let put = |h: H, k: &[u8], tag: u64, len: usize| Op::Put { h, k: K::lit(k), v: V { tag, len }, how: How::Slice, vhow: How::Slice };
    let mut ops = vec![Op::TxCreate { k: K::lit(b"top"), how: How::Slice }];
    let mut nh = 1;
    for j in 0..n {
        ops.push(Op::Create { h: 0, k: name(j), how: How::Slice });
        let hj = nh;
        nh += 1;
        ops.push(Op::Create { h: hj, k: K::lit(b"inner"), how: How::Slice });
        ops.push(put(nh, b"k", 3000 + j as u64, 20));
        nh += 1;
    }
    let tx0 = TxScript { ops, end: End::Commit, reopen: variant % 2 == 0 };
    // the transaction under test
    let mut ops = vec![Op::TxGet { k: K::lit(b"top"), how: How::Slice }]; // h0
    ops.push(Op::GetB { h: 0, k: name(target), how: How::Slice }); // h1 = top/sT
    ops.push(Op::GetB { h: 1, k: K::lit(b"inner"), how: How::Slice }); // h2 = top/sT/inner
    ops.push(put(2, b"deep", 9000 + target as u64, 40 + variant * 300));
    if variant % 3 == 1 {
        ops.push(Op::Create { h: 2, k: K::lit(b"deeper"), how: How::Slice }); // h3
        ops.push(put(3, b"deepest", 9500, 15));
        ops.push(Op::DropH { h: 3 });
    }
    ops.push(Op::DropH { h: 2 });
    ops.push(Op::DropH { h: 1 });
    let mut nh = if variant % 3 == 1 { 4 } else { 3 };
    // open every sub-bucket of `top`
    match variant % 3 {
        0 => ops.push(Op::Buckets { h: 0 }),
        1 => {
            for j in 0..n {
                if j != target {
                    ops.push(Op::GetB { h: 0, k: name(j), how: How::Slice });
                    ops.push(Op::DropH { h: nh });
                    nh += 1;
                }
            }
        }
        _ => {
            ops.push(Op::Buckets { h: 0 });
            ops.push(Op::Scan { h: 0 });
            ops.push(Op::Buckets { h: 0 });
        }
    }
    // come back to it from the top
    ops.push(Op::GetB { h: 0, k: name(target), how: How::Slice });
    ops.push(Op::GetB { h: nh, k: K::lit(b"inner"), how: How::Slice });
    ops.push(Op::Get { h: nh + 1, k: K::lit(b"deep") });
    ops.push(Op::Scan { h: nh + 1 });
    let tx1 = TxScript { ops, end: End::Commit, reopen: variant % 2 == 1 };
    let tx2 = TxScript { ops: vec![Op::TxGet { k: K::lit(b"top"), how: How::Slice }, Op::GetB { h: 0, k: name(target), how: How::Slice }, Op::GetB { h: 1, k: K::lit(b"inner"), how: How::Slice }, Op::Scan { h: 2 }], end: End::Commit, reopen: false };
    History { pagesize: ps, num_pages: 8, strict: false, populate: false, txs: vec![tx0, tx1, tx2], origin: format!("wide directory: {} sub-buckets, write two levels below #{} (variant {}), every handle dropped, all sub-buckets opened", n, target, variant), pins: vec![] }
}

/// Directed family: the ROOT of the database (the directory of top-level buckets) as a multi-page tree.
/// `n` top-level buckets with 10-byte names (17 fill a 1 KiB leaf) are created, the file is closed and
/// reopened, then one transaction deletes the top-level buckets number `a..b` and nothing else (all
/// leaves of the root but one emptied, the survivor untouched, is one of these), then ordinary commits.
pub fn root_dir_history(ps: u64, n: usize, a: usize, b: usize) -> History {
    let name = |j: usize| K::lit(format!("bucket-{:03}", j).as_bytes());
    let put = |h: H, k: &[u8], tag: u64, len: usize| Op::Put { h, k: K::lit(k), v: V { tag, len }, how: How::Slice, vhow: How::Slice };
    let mut ops = Vec::new();
    for j in 0..n {
        ops.push(Op::TxCreate { k: name(j), how: How::Slice });
        if j % 3 == 0 || n % 4 == 0 {
            ops.push(put(j, b"k", 100 + j as u64, 12));
            ops.push(put(j, b"l", 500 + j as u64, 12));
        }
    }
    ops.push(Op::TxBuckets);
    let tx0 = TxScript { ops, end: End::Commit, reopen: true };
    // a transaction that only reads (and commits): the header pair must keep describing the same tree
    let tx1 = TxScript { ops: vec![Op::TxBuckets, Op::TxGet { k: name(n - 1), how: How::Slice }], end: End::Commit, reopen: (a + b) % 2 == 0 };
    let mut ops = Vec::new();
    for j in a..b.min(n) {
        ops.push(Op::TxDelete { k: name(j), how: How::Slice });
    }
    // (half of the histories do not even list the survivors: nothing but the deletions touches the tree)
    if b % 4 == 0 {
        ops.push(Op::TxBuckets);
    }
    let tx2 = TxScript { ops, end: End::Commit, reopen: (a + b) % 3 == 0 };
    let tx3 = TxScript { ops: vec![Op::TxGetOrCreate { k: name(n + 1), how: How::Slice }, put(0, b"after", 7, 30), Op::TxBuckets], end: End::Commit, reopen: true };
    let tx4 = TxScript { ops: vec![Op::TxGetOrCreate { k: name(0), how: How::Slice }, put(0, b"again", 8, 30)], end: End::Commit, reopen: false };
    History { pagesize: ps, num_pages: 8, strict: false, populate: false, txs: vec![tx0, tx1, tx2, tx3, tx4], origin: format!("root directory: {} top-level buckets, delete #{}..{}", n, a, b), pins: vec![] }
}

// ---------------------------------------------------------------------------
// Directed family: several bucket deletions at different nesting levels in one
// transaction (child then ancestor, ancestor of a bucket modified or created in
// the same transaction, delete - recreate - delete).

/// index -> history; `None` past the end.
pub fn nested_delete_history(ps: u64, index: usize) -> Option<History> {
    // structure: a { x.., b { y.., c { z.. } } } ; d { .. } sibling
    let sizes = [(2usize, 10usize), (12, ps as usize / 5), (3, ps as usize * 2)];
    // ordered deletion plans: subsets of [c, b, a] child first
    let plans: [&[&str]; 8] = [
        &["c"],
        &["b"],
        &["a"],
        &["c", "b"],
        &["c", "a"],
        &["b", "a"],
        &["c", "b", "a"],
        &["b", "d", "a"],
    ];
    let pre_mods = 4; // none, put into deepest deleted, create new child under deleted, put into sibling d
    let post = 3; // nothing, recreate the outermost deleted and fill, recreate then delete again
    let total = sizes.len() * plans.len() * pre_mods * post;
    if index >= total {
        return None;
    }
    let mut i = index;
    let size = sizes[i % sizes.len()];
    i /= sizes.len();
    let plan = plans[i % plans.len()];
    i /= plans.len();
    let pre = i % pre_mods;
    i /= pre_mods;
    let post_mode = i % post;

    let kv = |h: H, n: usize, tag0: u64, vlen: usize, ops: &mut Vec<Op>| {
        for j in 0..n {
            ops.push(Op::Put {
                h,
                k: K {
                    pre: format!("key{:03}", j).into_bytes(),
                    fill: 12,
                    post: vec![],
                },
                v: V {
                    tag: tag0 + j as u64,
                    len: vlen,
                },
                how: How::Slice,
                vhow: How::Slice,
            });
        }
    };
    // tx1: build. handles: 0=a 1=b 2=c 3=d
    let mut ops = vec![Op::TxCreate {
        k: K::lit(b"a"),
        how: How::Slice,
    }];
    ops.push(Op::Create {
        h: 0,
        k: K::lit(b"b"),
        how: How::Slice,
    });
    ops.push(Op::Create {
        h: 1,
        k: K::lit(b"c"),
        how: How::Slice,
    });
    ops.push(Op::TxCreate {
        k: K::lit(b"d"),
        how: How::Slice,
    });
    kv(0, size.0, 100, size.1, &mut ops);
    kv(1, size.0, 200, size.1, &mut ops);
    kv(2, size.0, 300, size.1, &mut ops);
    kv(3, size.0.min(4), 400, size.1, &mut ops);
    let tx1 = TxScript {
        ops,
        end: End::Commit,
        reopen: index % 5 == 0,
    };
    // tx2: handles 0=a 1=b 2=c 3=d
    let mut ops = vec![
        Op::TxGet {
            k: K::lit(b"a"),
            how: How::Slice,
        },
        Op::GetB {
            h: 0,
            k: K::lit(b"b"),
            how: How::Slice,
        },
        Op::GetB {
            h: 1,
            k: K::lit(b"c"),
            how: How::Slice,
        },
        Op::TxGet {
            k: K::lit(b"d"),
            how: How::Slice,
        },
    ];
    let mut nh = 4;
    let deepest = plan[0];
    let hof = |n: &str| match n {
        "a" => 0,
        "b" => 1,
        "c" => 2,
        _ => 3,
    };
    match pre {
        1 => kv(hof(deepest), 2, 900, size.1, &mut ops),
        2 => {
            ops.push(Op::Create {
                h: hof(deepest),
                k: K::lit(b"fresh"),
                how: How::Slice,
            });
            kv(nh, 2, 950, 30, &mut ops);
            nh += 1;
        }
        3 => kv(3, 3, 970, size.1, &mut ops),
        _ => {}
    }
    for name in plan {
        match *name {
            "a" => ops.push(Op::TxDelete {
                k: K::lit(b"a"),
                how: How::Slice,
            }),
            "d" => ops.push(Op::TxDelete {
                k: K::lit(b"d"),
                how: How::Slice,
            }),
            "b" => ops.push(Op::DeleteB {
                h: 0,
                k: K::lit(b"b"),
                how: How::Slice,
            }),
            _ => ops.push(Op::DeleteB {
                h: 1,
                k: K::lit(b"c"),
                how: How::Slice,
            }),
        }
    }
    let outer = *plan.last().unwrap();
    if post_mode >= 1 {
        // recreate the outermost deleted bucket and fill it
        match outer {
            "a" => ops.push(Op::TxCreate {
                k: K::lit(b"a"),
                how: How::Slice,
            }),
            "b" => ops.push(Op::Create {
                h: 0,
                k: K::lit(b"b"),
                how: How::Slice,
            }),
            _ => ops.push(Op::Create {
                h: 1,
                k: K::lit(b"c"),
                how: How::Slice,
            }),
        }
        kv(nh, 3, 990, size.1, &mut ops);
        if post_mode == 2 {
            match outer {
                "a" => ops.push(Op::TxDelete {
                    k: K::lit(b"a"),
                    how: How::Slice,
                }),
                "b" => ops.push(Op::DeleteB {
                    h: 0,
                    k: K::lit(b"b"),
                    how: How::Slice,
                }),
                _ => ops.push(Op::DeleteB {
                    h: 1,
                    k: K::lit(b"c"),
                    how: How::Slice,
                }),
            }
        }
    }
    ops.push(Op::TxBuckets);
    let tx2 = TxScript {
        ops,
        end: End::Commit,
        reopen: false,
    };
    // tx3: touch what is left so that freed pages get reused
    let mut ops = vec![Op::TxGetOrCreate {
        k: K::lit(b"d"),
        how: How::Slice,
    }];
    kv(0, 6, 1200, size.1, &mut ops);
    let tx3 = TxScript {
        ops,
        end: End::Commit,
        reopen: true,
    };
    Some(History {
        pagesize: ps,
        num_pages: 8,
        strict: false,
        populate: false,
        txs: vec![tx1, tx2, tx3],
        pins: vec![],
        origin: format!(
            "nested-delete plan={:?} size={:?} pre={} post={}",
            plan, size, pre, post_mode
        ),
    })
}
