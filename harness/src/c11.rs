//! C11 – a commit that reports an I/O error neither corrupts nor half-applies.
//! For every I/O call a commit issues (counted first with the shim), that call
//! is made to fail (EIO, ENOSPC, genuine short write then EIO, "everything from
//! here on fails"); file extension is failed with RLIMIT_FSIZE.  Afterwards the
//! same handle and a reopened one must show exactly the pre- or post-state, be
//! sound, keep a safe free set and serve three more transactions.
use crate::exec::{self, ExecCfg, Run};
use crate::fileck;
use crate::model::MBucket;
use crate::ops::*;
use crate::report::{Ctx, Shard};
use crate::snap;
use crate::util::{self, Scratch};
use crate::vio::{self, Vio};
use serde::{Deserialize, Serialize};
use std::collections::BTreeSet;

#[derive(Clone, Debug, Serialize, Deserialize)]
pub struct Target {
    pub label: String,
    pub base: History,
    pub tx: TxScript,
}

#[derive(Clone, Debug, Serialize, Deserialize)]
pub struct Fault {
    /// "write" | "fsync" | "rlimit"
    pub class: String,
    pub nth: i64,
    pub errno: i32,
    /// 0 fail once, 1 short write then fail, 2 fail from nth on
    pub kind: i32,
    /// for rlimit: bytes above the current file size that stay allowed
    pub slack: u64,
    /// a second fault injected into the first follow-up commit (pairs)
    pub second: Option<(String, i64)>,
    /// bytes really written by a short write (0 = half of the buffer); for the second fault too
    #[serde(default)]
    pub short_len: i64,
    #[serde(default)]
    pub second_short_len: i64,
    /// a read-only transaction (on the pre-state) is open from before the failing commit until after
    /// the follow-up transactions; it must keep seeing the pre-state
    #[serde(default)]
    pub reader: bool,
}

fn k(i: usize) -> K {
    K { pre: format!("key{:03}", i).into_bytes(), fill: 10, post: vec![] }
}

fn put(h: H, i: usize, tag: u64, len: usize) -> Op {
    Op::Put { h, k: k(i), v: V { tag, len }, how: How::Slice, vhow: How::Slice }
}

fn base_history(ps: u64, num_pages: usize, rich: bool) -> History {
    let mut txs = Vec::new();
    // tx0: a (30 keys), a/x (10 keys), b (20 keys)
    let mut ops = vec![
        Op::TxCreate { k: K::lit(b"a"), how: How::Slice },
        Op::Create { h: 0, k: K::lit(b"x"), how: How::Slice },
        Op::TxCreate { k: K::lit(b"b"), how: How::Slice },
    ];
    let n = if rich { 30 } else { 4 };
    for i in 0..n {
        ops.push(put(0, i, 100 + i as u64, ps as usize / 5));
    }
    for i in 0..n / 3 {
        ops.push(put(1, i, 200 + i as u64, 60));
    }
    for i in 0..n * 2 / 3 {
        ops.push(put(2, i, 300 + i as u64, ps as usize / 3));
    }
    txs.push(TxScript { ops, end: End::Commit, reopen: false });
    if rich {
        // tx1: overwrite half of a, tx2: delete a third of b -> non-empty free list, reusable pages
        let mut ops = vec![Op::TxGet { k: K::lit(b"a"), how: How::Slice }];
        for i in (0..30).step_by(2) {
            ops.push(put(0, i, 400 + i as u64, ps as usize / 4));
        }
        txs.push(TxScript { ops, end: End::Commit, reopen: false });
        let mut ops = vec![Op::TxGet { k: K::lit(b"b"), how: How::Slice }];
        for i in (0..20).step_by(3) {
            ops.push(Op::Delete { h: 0, k: k(i) });
        }
        txs.push(TxScript { ops, end: End::Commit, reopen: true });
    }
    History { pagesize: ps, num_pages, strict: false, populate: false, txs, origin: "c11 base".into(), pins: vec![] }
}

pub fn targets(ps: u64, thorough: bool) -> Vec<Target> {
    let rich = base_history(ps, 512, true);
    let small_file = base_history(ps, 4, false);
    let mut v = Vec::new();
    let t = |label: &str, base: &History, ops: Vec<Op>| Target {
        label: label.to_string(),
        base: base.clone(),
        tx: TxScript { ops, end: End::Commit, reopen: false },
    };
    v.push(t("small (2 puts)", &rich, vec![Op::TxGet { k: K::lit(b"a"), how: How::Slice }, put(0, 3, 1000, 50), put(0, 77, 1001, 70)]));
    v.push(t(
        "multi-page value",
        &rich,
        vec![Op::TxGet { k: K::lit(b"b"), how: How::Slice }, put(0, 5, 1100, 5 * ps as usize), put(0, 6, 1101, 2 * ps as usize + 11)],
    ));
    v.push(t(
        "bucket deletes (nested then sibling)",
        &rich,
        vec![
            Op::TxGet { k: K::lit(b"a"), how: How::Slice },
            Op::DeleteB { h: 0, k: K::lit(b"x"), how: How::Slice },
            Op::TxDelete { k: K::lit(b"b"), how: How::Slice },
            put(0, 1, 1200, 40),
        ],
    ));
    let mut big = vec![Op::TxGet { k: K::lit(b"a"), how: How::Slice }, Op::TxGetOrCreate { k: K::lit(b"c"), how: How::Slice }];
    for i in 0..(if thorough { 60 } else { 25 }) {
        big.push(put(i % 2, 100 + i, 1300 + i as u64, ps as usize / 3));
    }
    v.push(t("many pages", &rich, big));
    v.push(t(
        "growing (one 9 MiB value on a minimum-size file)",
        &small_file,
        vec![Op::TxGet { k: K::lit(b"a"), how: How::Slice }, put(0, 50, 1400, 9 * 1024 * 1024)],
    ));
    if thorough {
        v.push(t(
            "growing twice (17 MiB)",
            &small_file,
            vec![Op::TxGet { k: K::lit(b"a"), how: How::Slice }, put(0, 50, 1500, 17 * 1024 * 1024)],
        ));
    }
    v
}

fn follow_ups() -> Vec<TxScript> {
    (0..3)
        .map(|j| {
            let mut ops = vec![Op::TxGetOrCreate { k: K::lit(b"a"), how: How::Slice }, Op::TxGetOrCreate { k: K::lit(b"after"), how: How::Slice }];
            for i in 0..6 {
                ops.push(put(i % 2, 10 * j + i, 9000 + (10 * j + i) as u64, 90 + 40 * i));
            }
            ops.push(Op::Delete { h: 0, k: k(10 * j) });
            TxScript { ops, end: End::Commit, reopen: false }
        })
        .collect()
}

pub struct Prepared {
    pub image: Vec<u8>,
    pub pre: MBucket,
    pub post: MBucket,
    pub n_writes: u64,
    pub n_fsyncs: u64,
    pub n_mmaps: u64,
    pub base_len: u64,
}

pub fn prepare(t: &Target, path: &std::path::Path, vio: &Vio) -> Result<Prepared, String> {
    crate::c03::forbid_grow(false);
    let _ = std::fs::remove_file(path);
    let out = exec::run_history(&t.base, &ExecCfg::default(), path);
    if out.aborted {
        return Err(crate::report::workload_failure(out.violations.first(), "base history was cut short"));
    }
    let image = std::fs::read(path).map_err(|e| e.to_string())?;
    let mut pre = MBucket::default();
    crate::c06::replay_model(&t.base, &mut pre);
    // count the I/O calls of the fault-free commit
    let db = exec::open_db(path, &t.base).map_err(|e| e.to_string())?;
    let cfg = ExecCfg::default();
    let mut run = Run::new(&cfg, t.base.pagesize);
    let mut post = pre.clone();
    vio.reset();
    exec::exec_tx(&mut run, &db, path, &t.tx, 0, &mut post);
    let s = vio.stats();
    if run.out.aborted {
        return Err(crate::report::workload_failure(run.out.violations.first(), "target transaction was cut short without any fault"));
    }
    drop(db);
    Ok(Prepared { base_len: image.len() as u64, image, pre, post, n_writes: s.writes, n_fsyncs: s.fsyncs, n_mmaps: s.mmaps })
}

fn set_fsize_limit(limit: Option<u64>) {
    unsafe {
        let mut old: libc::rlimit = std::mem::zeroed();
        libc::getrlimit(libc::RLIMIT_FSIZE, &mut old);
        let new = libc::rlimit { rlim_cur: limit.unwrap_or(old.rlim_max), rlim_max: old.rlim_max };
        libc::setrlimit(libc::RLIMIT_FSIZE, &new);
    }
}

#[derive(Default)]
pub struct St {
    pub injected: u64,
    pub fired: u64,
    pub commit_err: u64,
    pub commit_ok: u64,
    pub state_pre: u64,
    pub state_post: u64,
    pub err_but_post: u64,
    pub followups: u64,
    pub reopens: u64,
    pub invariant_evals: u64,
    pub rlimit_runs: u64,
    pub pairs: u64,
    pub with_reader: u64,
    pub retries: u64,
    pub reader_checks: u64,
}

/// One injected run. Ok(()) or a violation (signature, detail); Err(string) = inconclusive.
pub fn inject(t: &Target, p: &Prepared, f: &Fault, path: &std::path::Path, vio: &Vio, st: &mut St) -> Result<Option<(String, String)>, String> {
    crate::c03::forbid_grow(false); // (an earlier run that ended with a violation returns before it resets this)
    std::fs::write(path, &p.image).map_err(|e| e.to_string())?;
    let h = &t.base;
    let ps = h.pagesize;
    let db = exec::open_db(path, h).map_err(|e| e.to_string())?;
    let cfg = ExecCfg::default();
    let mut run = Run::new(&cfg, ps);
    run.tolerate_commit_err = true;
    let mut m = p.pre.clone();
    st.injected += 1;
    let phase = format!("{}#{}{}{}", f.class, f.nth, match f.kind { 1 => ":short", 2 => ":from-here-on", 3 => ":short-then-success", _ => "" }, if f.short_len > 0 { format!("({}B)", f.short_len) } else { String::new() });
    let arm = |f: &Fault| match f.class.as_str() {
        "write" => {
            vio.arm(vio::CLASS_WRITE, f.nth, f.errno, f.kind);
            vio.short_len(f.short_len);
        }
        "header-write" => {
            vio.arm(vio::CLASS_HEADER_WRITE, f.nth, f.errno, f.kind);
            vio.short_len(f.short_len);
            vio.below(2 * ps as i64);
        }
        "fsync" => vio.arm(vio::CLASS_FSYNC, f.nth, f.errno, f.kind),
        "mmap" => vio.arm(vio::CLASS_MMAP, f.nth, f.errno, 0),
        _ => {}
    };
    // an older reader, held across the failing commit and everything that follows (pre-sized files only)
    let reader = if f.reader {
        crate::c03::forbid_grow(true);
        st.with_reader += 1;
        Some(db.tx(false).map_err(|e| e.to_string())?)
    } else {
        None
    };
    let reader_pin = if reader.is_some() { snap::pin_newest(&p.image, ps) } else { None };
    let check_reader = |when: &str, st: &mut St| -> Option<(String, String)> {
        if let Some(rtx) = &reader {
            st.reader_checks += 1;
            match util::catch(|| exec::verify_tx_against(rtx, &p.pre, false)) {
                Ok(None) => None,
                Ok(Some(d)) => Some((format!("after-fault:older-reader-view-changed:{}", exec::classify_diff(&d)), format!("[{}] fault {}: a reader opened before the failing commit no longer sees its snapshot {}: {}", t.label, phase, when, d))),
                Err(pn) => Some((format!("after-fault:older-reader-{}", util::panic_signature(&pn)), format!("[{}] fault {}: a reader opened before the failing commit panics {}: {}", t.label, phase, when, pn.msg))),
            }
        } else {
            None
        }
    };
    vio.reset();
    if f.class == "rlimit" {
        st.rlimit_runs += 1;
        set_fsize_limit(Some(p.base_len + f.slack));
    } else {
        arm(f);
    }
    let r = util::catch(|| exec::exec_tx(&mut run, &db, path, &t.tx, 0, &mut m));
    set_fsize_limit(None);
    let vio_fired = vio.stats().fired > 0;
    let fired = vio_fired || f.class == "rlimit";
    vio.reset();
    if let Err(pn) = r {
        return Ok(Some((
            format!("commit-panics:{}", util::panic_signature(&pn)),
            format!("[{}] fault {}: commit panicked at {}:{}: {}", t.label, phase, pn.file, pn.line, pn.msg),
        )));
    }
    if run.out.aborted {
        return Err(format!("[{}] the transaction disagreed with the model before the fault mattered", t.label));
    }
    if fired {
        st.fired += 1;
    }
    let commit_ok = run.last_commit_err.is_none();
    if commit_ok {
        st.commit_ok += 1;
    } else {
        st.commit_err += 1;
    }
    // "If a write, a file extension or a sync fails during commit, commit returns an error": a call of the
    // commit itself was made to fail by the shim (it reports how many armed faults fired) and commit said Ok
    if commit_ok && f.class != "rlimit" && f.kind != 3 && vio_fired {
        return Ok(Some((
            "after-fault:commit-ok-although-a-call-failed".into(),
            format!("[{}] fault {}: the {} call was failed by the shim and commit() still returned Ok", t.label, phase, f.class),
        )));
    }
    // ---- what does the same handle show now?
    let view = util::catch(|| -> Result<MBucket, String> {
        let tx = db.tx(false).map_err(|e| e.to_string())?;
        exec::dump_tx(&tx)
    });
    let got = match view {
        Ok(Ok(g)) => g,
        Ok(Err(e)) => return Ok(Some(("after-fault:same-handle-unreadable".into(), format!("[{}] fault {}: reading through the same handle failed: {}", t.label, phase, e)))),
        Err(pn) => return Ok(Some((format!("after-fault:same-handle-{}", util::panic_signature(&pn)), format!("[{}] fault {}: reading through the same handle panicked: {}", t.label, phase, pn.msg)))),
    };
    let is_post = got.diff(&p.post, false).is_none();
    let is_pre = got.diff(&p.pre, false).is_none();
    if !is_post && !is_pre {
        return Ok(Some((
            "after-fault:neither-pre-nor-post-state".into(),
            format!("[{}] fault {} (commit returned {}): same handle shows neither state; vs pre: {:?}; vs post: {:?}", t.label, phase, if commit_ok { "Ok" } else { "Err" }, got.diff(&p.pre, false), got.diff(&p.post, false)),
        )));
    }
    if commit_ok && !is_post {
        return Ok(Some((
            "after-fault:commit-ok-but-not-applied".into(),
            format!("[{}] fault {}: commit returned Ok although an I/O call failed, and the transaction is not visible", t.label, phase),
        )));
    }
    let mut model = if is_post { st.state_post += 1; p.post.clone() } else { st.state_pre += 1; p.pre.clone() };
    if !commit_ok && is_post {
        st.err_but_post += 1;
    }
    // ---- soundness of the file and of the in-memory free set
    let head = snap::read_prefix(path, 2 * ps);
    if let (Some(mi), _) = fileck::choose_meta(&head, ps) {
        let img = snap::read_prefix(path, mi.num_pages * ps);
        let rep = fileck::check(&img, ps);
        if !rep.ok() {
            return Ok(Some((
                format!("after-fault:file-unsound:{}", exec::fileck_sig(&rep.errors[0])),
                format!("[{}] fault {}: {}", t.label, phase, rep.errors[0]),
            )));
        }
        let probe = util::catch(|| db.tx(true).map(|t| t.verif_tx_state()));
        if let Ok(Ok(ts)) = probe {
            st.invariant_evals += 1;
            let free: BTreeSet<u64> = ts.free.iter().cloned().collect();
            let pinned = snap::pin(&img, ps, &mi);
            if let Some(rp) = &reader_pin {
                if let Some(pg) = rp.reach.intersection(&free).next() {
                    return Ok(Some((
                        "after-fault:free-set-intersects-older-reader-snapshot".into(),
                        format!("[{}] fault {} (commit returned {}): page {} belongs to the snapshot of a reader that is still open but the next writer may allocate it", t.label, phase, if commit_ok { "Ok" } else { "Err" }, pg),
                    )));
                }
            }
            if let Some(pg) = pinned.reach.intersection(&free).next() {
                return Ok(Some((
                    "after-fault:free-set-intersects-live-pages".into(),
                    format!("[{}] fault {} (commit returned {}, state {}): page {} is reachable from the header on file (tx {}) but the next writer may allocate it", t.label, phase, if commit_ok { "Ok" } else { "Err" }, if is_post { "post" } else { "pre" }, pg, mi.tx_id),
                )));
            }
        }
    }
    if let Err(e) = db.check() {
        return Ok(Some((
            format!("after-fault:db-check:{}", exec::fileck_sig(&e.to_string())),
            format!("[{}] fault {}: DB::check on the same handle: {}", t.label, phase, e),
        )));
    }
    // ---- the database keeps accepting transactions that commit correctly
    let strict = ExecCfg { verify_after_commit: true, fileck_each_commit: true, ..Default::default() };
    let mut run2 = Run::new(&strict, ps);
    let mut fus = follow_ups();
    if t.label.starts_with("growing") && !is_post {
        // the failed transaction is tried again on the same handle (it places pages beyond the old end of
        // the file, which the failed attempt may or may not have extended), then the ordinary follow-ups
        fus.insert(0, t.tx.clone());
        st.retries += 1;
    }
    for (j, fu) in fus.iter().enumerate() {
        if j == 0 {
            if let Some((cls, nth)) = &f.second {
                // pair: the next commit is hit as well; it may fail, nothing may break
                st.pairs += 1;
                run2.tolerate_commit_err = true;
                vio.reset();
                if cls == "header-write-short" {
                    let _ = nth;
                    vio.arm(vio::CLASS_HEADER_WRITE, 0, libc::EIO, 1);
                    vio.short_len(f.second_short_len);
                    vio.below(2 * ps as i64);
                } else {
                    vio.arm(if cls == "fsync" { vio::CLASS_FSYNC } else { vio::CLASS_WRITE }, *nth, libc::EIO, 0);
                }
            }
        }
        let before = model.clone();
        let r = util::catch(|| exec::exec_tx(&mut run2, &db, path, fu, j + 1, &mut model));
        vio.reset();
        if let Err(pn) = r {
            return Ok(Some((
                format!("after-fault:follow-up-{}", util::panic_signature(&pn)),
                format!("[{}] fault {}: follow-up transaction {} panicked at {}:{}: {}", t.label, phase, j, pn.file, pn.line, pn.msg),
            )));
        }
        if run2.tolerate_commit_err {
            run2.tolerate_commit_err = false;
            if run2.last_commit_err.take().is_some() {
                // which state are we in now?
                let tx = db.tx(false).map_err(|e| e.to_string())?;
                let g = exec::dump_tx(&tx)?;
                let mut after = before.clone();
                crate::c06::replay_model(&History { txs: vec![fu.clone()], ..h.clone() }, &mut after);
                if g.diff(&after, false).is_none() {
                    model = after;
                } else if g.diff(&before, false).is_none() {
                    model = before;
                } else {
                    return Ok(Some(("after-fault:second-fault-neither-state".into(), format!("[{}] fault {} then a second fault: neither state", t.label, phase))));
                }
            }
        }
        if let Some(v) = run2.out.violations.first() {
            return Ok(Some((
                format!("after-fault:follow-up:{}", v.sig),
                format!("[{}] fault {} (commit returned {}, state {}): follow-up transaction {}: {}", t.label, phase, if commit_ok { "Ok" } else { "Err" }, if is_post { "post" } else { "pre" }, j, v.detail),
            )));
        }
        st.followups += 1;
        if let Some(v) = check_reader(&format!("after follow-up transaction {}", j), st) {
            return Ok(Some(v));
        }
    }
    drop(reader);
    crate::c03::forbid_grow(false);
    drop(db);
    // ---- after reopening
    st.reopens += 1;
    let r = util::catch(|| -> Result<Option<String>, String> {
        let db = exec::open_db(path, h).map_err(|e| format!("reopen: {}", e))?;
        let tx = db.tx(false).map_err(|e| e.to_string())?;
        if let Some(d) = exec::verify_tx_against(&tx, &model, false) {
            return Ok(Some(d));
        }
        drop(tx);
        db.check().map_err(|e| format!("DB::check after reopen: {}", e))?;
        Ok(None)
    });
    match r {
        Ok(Ok(None)) => Ok(None),
        Ok(Ok(Some(d))) => Ok(Some((format!("after-fault:reopen:{}", exec::classify_diff(&d)), format!("[{}] fault {}: after reopen: {}", t.label, phase, d)))),
        Ok(Err(e)) => Ok(Some(("after-fault:reopen-fails".into(), format!("[{}] fault {}: {}", t.label, phase, e)))),
        Err(pn) => Ok(Some((format!("after-fault:reopen-{}", util::panic_signature(&pn)), format!("[{}] fault {}: reopen panicked: {}", t.label, phase, pn.msg)))),
    }
}

pub fn faults_for(p: &Prepared, growing: bool, thorough: bool) -> Vec<Fault> {
    let mut v = Vec::new();
    let f = |class: &str, nth: i64, errno: i32, kind: i32| Fault { class: class.into(), nth, errno, kind, slack: 0, second: None, short_len: 0, second_short_len: 0, reader: false };
    for i in 0..p.n_writes as i64 {
        v.push(f("write", i, libc::EIO, 0));
        v.push(f("write", i, libc::ENOSPC, 0));
        v.push(f("write", i, libc::EIO, 1));
        if thorough || i % 3 == 0 {
            v.push(f("write", i, libc::EIO, 2));
        }
    }
    for i in 0..p.n_writes as i64 {
        // a short count that is NOT followed by an error: the caller must write the rest itself
        v.push(f("write", i, libc::EIO, 3));
        if i % 2 == 0 {
            let mut x = f("write", i, libc::EIO, 3);
            x.short_len = 100;
            v.push(x);
        }
    }
    if growing {
        // the file was extended but mapping it again fails
        for i in 0..p.n_mmaps as i64 {
            v.push(f("mmap", i, libc::ENOMEM, 0));
        }
    }
    for i in 0..p.n_fsyncs as i64 {
        v.push(f("fsync", i, libc::EIO, 0));
        v.push(f("fsync", i, libc::EIO, 2));
    }
    if growing {
        for slack in [0u64, 4096, 4 << 20, 8 << 20, (8 << 20) + 4096, 16 << 20] {
            v.push(Fault { class: "rlimit".into(), nth: 0, errno: libc::EFBIG, kind: 0, slack, second: None, short_len: 0, second_short_len: 0, reader: false });
        }
    }
    // pairs: one fault in this commit, one in the next
    let n = p.n_writes as i64;
    for (a, b) in [(n - 1, 0i64), (n - 1, 1), (0, 0), (n / 2, 2)] {
        if a >= 0 {
            let mut x = f("write", a, libc::EIO, 0);
            x.second = Some(("write".into(), b));
            v.push(x);
        }
    }
    let mut x = f("fsync", (p.n_fsyncs as i64 - 1).max(0), libc::EIO, 0);
    x.second = Some(("fsync".into(), 0));
    v.push(x);
    // the header write (the last write of the commit) torn at chosen byte counts: inside the page
    // header, inside the record, just short of / just past the end of the record (byte 104)
    let cuts: [i64; 10] = [8, 40, 57, 64, 80, 89, 96, 103, 104, 200];
    for c in cuts {
        let mut x = f("header-write", 0, libc::EIO, 1);
        x.short_len = c;
        v.push(x);
    }
    // and pairs of torn header writes in two consecutive commits
    let pair_cuts: Vec<(i64, i64)> = if thorough {
        cuts.iter().flat_map(|a| cuts.iter().map(move |b| (*a, *b))).collect()
    } else {
        vec![(100, 80), (96, 80), (103, 96), (89, 64), (100, 57), (57, 100), (104, 80), (80, 104), (40, 40), (103, 103)]
    };
    for (a, b) in pair_cuts {
        let mut x = f("header-write", 0, libc::EIO, 1);
        x.short_len = a;
        x.second = Some(("header-write-short".into(), 0));
        x.second_short_len = b;
        v.push(x);
    }
    if !growing {
        // every single fault again with an older reader held open (pre-sized file: no growth)
        let with_reader: Vec<Fault> = v.iter().filter(|x| x.second.is_none() && (x.kind != 2 || x.nth % 2 == 0)).map(|x| Fault { reader: true, ..x.clone() }).collect();
        v.extend(with_reader);
    }
    v
}

pub fn run(ctx: &Ctx) -> Shard {
    let mut shard = Shard::new("C11");
    let vio = match Vio::get() {
        Some(v) => v,
        None => {
            shard.notes.push("I/O shim not preloaded: nothing observed".into());
            return shard;
        }
    };
    unsafe {
        libc::signal(libc::SIGXFSZ, libc::SIG_IGN);
    }
    crate::c03::install_no_grow_handler();
    let scratch = Scratch::new("C11");
    let mut st = St::default();
    let cur = std::env::var("VH_CURRENT").ok();
    let sizes: Vec<u64> = if ctx.thorough() { vec![1024, 4096] } else { vec![1024] };
    if let Some(rp) = &ctx.replay {
        let doc: serde_json::Value = serde_json::from_slice(&std::fs::read(rp).expect("read replay")).expect("parse");
        let t: Target = serde_json::from_value(doc["case"]["target"].clone()).expect("target");
        let f: Fault = serde_json::from_value(doc["case"]["fault"].clone()).expect("fault");
        let path = scratch.fresh("c11");
        let p = prepare(&t, &path, &vio).expect("prepare");
        shard.evaluations += 1;
        match inject(&t, &p, &f, &path, &vio, &mut st) {
            Ok(Some((sig, detail))) => shard.violation(ctx, &sig, &detail, &doc["case"]),
            Ok(None) => {}
            Err(e) => shard.inconclusive(e),
        }
        return shard;
    }
    let mut idx = 0u64;
    let mut all_single = true;
    for ps in sizes {
        for t in targets(ps, ctx.thorough()) {
            let path = scratch.fresh("c11");
            let p = match prepare(&t, &path, &vio) {
                Ok(p) => p,
                Err(e) => {
                    shard.inconclusive_or_workload(ctx, &format!("[{}]", t.label), &e, &serde_json::json!({"kind": "c11-prepare", "target": t}));
                    all_single = false;
                    continue;
                }
            };
            shard.set("targets(label: writes, fsyncs per commit)", format!("ps={} {}: {} writes, {} fsyncs", ps, t.label, p.n_writes, p.n_fsyncs));
            let growing = t.label.starts_with("growing");
            for f in faults_for(&p, growing, ctx.thorough()) {
                idx += 1;
                if idx % ctx.nshards != ctx.shard {
                    continue;
                }
                if let Some(c) = &cur {
                    let _ = std::fs::write(c, serde_json::to_vec(&serde_json::json!({"target": t, "fault": f})).unwrap());
                }
                shard.evaluations += 1;
                let hh = util::fnv64(format!("{}|{}|{:?}", ps, t.label, f).as_bytes());
                shard.distinct.insert(hh);
                let fired_before = st.fired;
                match inject(&t, &p, &f, &path, &vio, &mut st) {
                    Ok(None) => {}
                    Ok(Some((sig, detail))) => {
                        let replay = serde_json::json!({"kind": "c11", "target": t, "fault": f});
                        shard.violation(ctx, &sig, &detail, &replay);
                    }
                    Err(e) => shard.inconclusive(e),
                }
                if st.fired > fired_before {
                    shard.nontrivial.insert(hh);
                }
                if shard.samples.len() < 2 {
                    shard.sample(serde_json::json!({"target": t.label, "pagesize": ps, "fault": f, "commit_io_calls": {"writes": p.n_writes, "fsyncs": p.n_fsyncs}}));
                }
            }
            let _ = std::fs::remove_file(&path);
        }
    }
    shard.exhaustive = Some(all_single);
    shard.count("injected_runs", st.injected);
    shard.count("faults_that_fired", st.fired);
    shard.count("commit_returned_err", st.commit_err);
    shard.count("commit_returned_ok", st.commit_ok);
    shard.count("state_after_fault:pre", st.state_pre);
    shard.count("state_after_fault:post", st.state_post);
    shard.count("commit_returned_err_but_new_state_visible", st.err_but_post);
    shard.count("follow_up_transactions_verified", st.followups);
    shard.count("reopens_verified", st.reopens);
    shard.count("free_set_invariant_evaluations", st.invariant_evals);
    shard.count("extension_failures_by_file_size_limit", st.rlimit_runs);
    shard.count("fault_pairs", st.pairs);
    shard.count("runs_with_an_older_reader_held_open", st.with_reader);
    shard.count("failed_growing_transactions_retried_on_the_same_handle", st.retries);
    shard.count("older_reader_verifications", st.reader_checks);
    shard
}
