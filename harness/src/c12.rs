//! C12 – damage to one header page falls back to the other.
//! Files closed cleanly after 0..n commits; every single-byte change of a
//! header page (all 255 other values in the first 128 bytes, three values per
//! offset in the rest), zeroing, and seeded multi-byte overwrites; each mutated
//! copy is opened through the public API and read in full.
use crate::exec::{self, ExecCfg};
use crate::fileck;
use crate::gen::{self, GenCfg};
use crate::model::MBucket;
use crate::ops::*;
use crate::report::{Ctx, Shard};
use crate::util::{self, Rng, Scratch};
use serde::{Deserialize, Serialize};

#[derive(Clone, Debug, Serialize, Deserialize)]
pub struct Mutation {
    /// which base file (number of commits)
    pub commits: usize,
    pub slot: u64,
    /// (offset within the page, new byte)
    pub bytes: Vec<(usize, u8)>,
    pub what: String,
}

pub struct Base {
    pub history: History,
    pub image: Vec<u8>,
    pub newest_slot: u64,
    pub s_new: MBucket,
    pub s_prev: MBucket,
    pub ps: u64,
}

fn region(off: usize) -> &'static str {
    match off {
        0..=7 => "page-id",
        8 => "type-byte",
        9..=15 => "type-padding",
        16..=31 => "count-overflow-words",
        32..=35 => "field:meta_page",
        36..=39 => "field:magic",
        40..=43 => "field:version",
        44..=47 => "struct-padding",
        48..=55 => "field:pagesize",
        56..=63 => "field:root_page",
        64..=71 => "field:next_int",
        72..=79 => "field:num_pages",
        80..=87 => "field:freelist_page",
        88..=95 => "field:tx_id",
        96..=103 => "checksum",
        _ => "beyond-record",
    }
}

fn semantic(off: usize) -> bool {
    let r = region(off);
    r == "type-byte" || r == "checksum" || r.starts_with("field:")
}

pub fn make_base(ps: u64, commits: usize, seed: u64, scratch: &Scratch) -> Result<Base, String> {
    let mut rng = Rng::new(seed ^ (commits as u64 * 7919));
    let mut g = GenCfg::default_for(ps, 4);
    g.n_txs = (commits, commits);
    g.p_rollback = 0;
    g.p_reopen = 0;
    g.p_misuse = 0;
    g.ops_per_tx = (6, 20);
    g.max_value = ps as usize;
    let mut h = if commits == 0 {
        History { pagesize: ps, num_pages: 8, strict: false, populate: false, txs: vec![], origin: "fresh".into(), pins: vec![] }
    } else {
        gen::gen_history(&mut rng, &g)
    };
    // make sure every transaction changes something visible: add a marker put
    for (i, t) in h.txs.iter_mut().enumerate() {
        t.end = End::Commit;
        t.reopen = false;
        t.ops.insert(0, Op::TxGetOrCreate { k: K::lit(b"marker"), how: How::Slice });
        // inserting at the front shifts handle numbers of the generated ops by one
        for op in t.ops.iter_mut().skip(1) {
            shift_handles(op);
        }
        t.ops.insert(1, Op::Put { h: 0, k: K::lit(b"commit"), v: V { tag: i as u64 + 1, len: 9 }, how: How::Slice, vhow: How::Slice });
    }
    base_from_history(h, scratch)
}

/// Execute `h` with the code under test and record the file image and the last two committed states.
pub fn base_from_history(h: History, scratch: &Scratch) -> Result<Base, String> {
    let ps = h.pagesize;
    let commits = h.txs.len();
    let path = scratch.fresh("base");
    let out = exec::run_history(&h, &ExecCfg::default(), &path);
    if out.aborted {
        let _ = std::fs::remove_file(&path);
        return Err(crate::report::workload_failure(out.violations.first(), "base history was cut short"));
    }
    let image = std::fs::read(&path).map_err(|e| e.to_string())?;
    let _ = std::fs::remove_file(&path);
    let mut s_new = MBucket::default();
    crate::c06::replay_model(&h, &mut s_new);
    let mut s_prev = MBucket::default();
    if commits > 0 {
        let mut hp = h.clone();
        hp.txs.pop();
        crate::c06::replay_model(&hp, &mut s_prev);
    }
    let newest_slot = probe_newest_slot(&image, &h, commits, &s_prev, &s_new, scratch)?;
    Ok(Base { history: h, image, newest_slot, s_new, s_prev, ps })
}

/// which slot holds the newest header?  Asked of the code under test itself, so that the check does
/// not depend on the checksum algorithm: zero each slot in turn and see which state is shown.
fn probe_newest_slot(image: &[u8], h: &History, commits: usize, s_prev: &MBucket, s_new: &MBucket, scratch: &Scratch) -> Result<u64, String> {
    let ps = h.pagesize;
    let mut newest_slot = None;
    if commits == 0 {
        newest_slot = Some(1);
    } else {
        for s in 0..2u64 {
            let mut img = image.to_vec();
            for b in img[(s * ps) as usize..((s + 1) * ps) as usize].iter_mut() {
                *b = 0;
            }
            let p2 = scratch.fresh("probe");
            std::fs::write(&p2, &img).map_err(|e| e.to_string())?;
            let shown = util::catch(|| -> Option<MBucket> {
                let db = exec::open_db(&p2, h).ok()?;
                let tx = db.tx(false).ok()?;
                exec::dump_tx(&tx).ok()
            });
            let _ = std::fs::remove_file(&p2);
            if let Ok(Some(st)) = shown {
                if st.diff(s_prev, false).is_none() && st.diff(s_new, false).is_some() {
                    newest_slot = Some(s);
                }
            }
        }
    }
    let newest_slot = match newest_slot {
        Some(s) => s,
        None => {
            // zeroing either header does not bring back the previous commit: fall back to the parser's view;
            // the mutation sweep below will report what is wrong
            let (m, _) = fileck::choose_meta(image, ps);
            m.map(|m| m.slot).unwrap_or(commits as u64 % 2 ^ 1)
        }
    };
    Ok(newest_slot)
}

/// A base whose headers the code under test did not (all) write itself: `start` is a file image with known
/// contents `start_state` (a file of the pinned release, or one with legacy-format headers); `extra` further
/// marker commits are made on it by the current code.  Returns None when the image cannot be used.
pub fn foreign_base(start: &[u8], start_state: &MBucket, ps: u64, extra: usize, scratch: &Scratch) -> Result<Base, String> {
    let path = scratch.fresh("foreign");
    std::fs::write(&path, start).map_err(|e| e.to_string())?;
    let h = History { pagesize: ps, num_pages: 8, strict: false, populate: false, txs: vec![], origin: "foreign".into(), pins: vec![] };
    let cfg = ExecCfg::default();
    let mut run = exec::Run::new(&cfg, ps);
    let mut model = start_state.clone();
    let mut prev = start_state.clone();
    let r = util::catch(|| -> Result<(), String> {
        let db = exec::open_db(&path, &h).map_err(|e| e.to_string())?;
        for i in 0..extra {
            prev = model.clone();
            let t = TxScript {
                ops: vec![Op::TxGetOrCreate { k: K::lit(b"c12-marker"), how: How::Slice }, Op::Put { h: 0, k: K::lit(b"commit"), v: V { tag: 5000 + i as u64, len: 9 }, how: How::Slice, vhow: How::Slice }],
                end: End::Commit,
                reopen: false,
            };
            exec::exec_tx(&mut run, &db, &path, &t, i, &mut model);
            if run.out.aborted {
                return Err(crate::report::workload_failure(run.out.violations.first(), "a further commit on the foreign base was cut short"));
            }
        }
        Ok(())
    });
    let image = std::fs::read(&path).map_err(|e| e.to_string());
    let _ = std::fs::remove_file(&path);
    match r {
        Ok(Ok(())) => {}
        Ok(Err(e)) => return Err(e),
        Err(p) => return Err(format!("{}{}|a further commit on the foreign base panicked at {}:{}: {}", crate::report::WORKLOAD_FAILED, util::panic_signature(&p), p.file, p.line, p.msg)),
    }
    let image = image?;
    // (with no further commit the two headers of the start image describe states this check does not know
    // apart from the newest one; only `extra >= 1` gives a known previous state)
    let newest_slot = probe_newest_slot(&image, &h, extra, &prev, &model, scratch)?;
    Ok(Base { history: h, image, newest_slot, s_new: model, s_prev: prev, ps })
}

/// How a base with foreign headers is made (kept in the replay file).
#[derive(Serialize, Deserialize, Debug, Clone)]
pub struct ForeignSpec {
    /// a file under the golden directory (written by the pinned release), or empty
    pub golden: String,
    /// a history the current code executes first (when `golden` is empty)
    pub history: Option<History>,
    /// both headers of the start image are re-encoded in the legacy (SHA3) format
    pub legacy: bool,
    /// further commits by the current code on the start image
    pub extra: usize,
}

pub fn build_foreign(spec: &ForeignSpec, ctx: &Ctx, scratch: &Scratch) -> Result<Base, String> {
    if let Some(h) = &spec.history {
        let b = base_from_history(h.clone(), scratch)?;
        let img = if spec.legacy { crate::c15::to_legacy(&b.image, b.ps) } else { b.image.clone() };
        if spec.extra == 0 {
            return Ok(Base { image: img, ..b });
        }
        return foreign_base(&img, &b.s_new, b.ps, spec.extra, scratch);
    }
    let dir = std::path::PathBuf::from(ctx.get("golden").unwrap_or("/verif/out/golden"));
    let bytes = std::fs::read(dir.join(&spec.golden)).map_err(|e| format!("golden file {}: {}", spec.golden, e))?;
    let doc: serde_json::Value = std::fs::read(dir.join("golden-1024.manifest.json")).ok().and_then(|b| serde_json::from_slice(&b).ok()).ok_or("golden manifest missing")?;
    let state = crate::c15::manifest_bucket(&doc["contents"]);
    let img = if spec.legacy { crate::c15::to_legacy(&bytes, 1024) } else { bytes };
    foreign_base(&img, &state, 1024, spec.extra.max(1), scratch)
}

fn shift_handles(op: &mut Op) {
    match op {
        Op::Put { h, .. }
        | Op::Get { h, .. }
        | Op::GetKv { h, .. }
        | Op::Delete { h, .. }
        | Op::Create { h, .. }
        | Op::GetB { h, .. }
        | Op::GetOrCreate { h, .. }
        | Op::DeleteB { h, .. }
        | Op::Scan { h }
        | Op::Seek { h, .. }
        | Op::Range { h, .. }
        | Op::Buckets { h }
        | Op::KvPairs { h }
        | Op::NextInt { h }
        | Op::Misuse { h, .. } => *h += 1,
        _ => {}
    }
}

pub enum Verdict {
    Ok(&'static str),
    Bad(String, String),
}

/// Write the pristine image once; later mutations only rewrite the header page.
pub fn prepare(base: &Base, path: &std::path::Path) -> bool {
    std::fs::write(path, &base.image).is_ok()
}

fn write_page(path: &std::path::Path, off: u64, bytes: &[u8]) -> bool {
    use std::os::unix::fs::FileExt;
    match std::fs::OpenOptions::new().write(true).open(path) {
        Ok(f) => f.write_all_at(bytes, off).is_ok(),
        Err(_) => false,
    }
}

pub fn judge(base: &Base, m: &Mutation, path: &std::path::Path, extra_commit: bool) -> Verdict {
    let p0 = (m.slot * base.ps) as usize;
    let mut page = base.image[p0..p0 + base.ps as usize].to_vec();
    let mut touched_semantic = false;
    let mut changed = false;
    for (off, v) in &m.bytes {
        if page[*off] != *v {
            changed = true;
            if semantic(*off) {
                touched_semantic = true;
            }
        }
        page[*off] = *v;
    }
    if !changed {
        return Verdict::Ok("no-op");
    }
    if !write_page(path, p0 as u64, &page) {
        return Verdict::Ok("io");
    }
    let v = judge_inner(base, m, path, extra_commit, touched_semantic);
    // restore the pristine file for the next mutation
    if extra_commit {
        prepare(base, path);
    } else {
        write_page(path, p0 as u64, &base.image[p0..p0 + base.ps as usize]);
    }
    v
}

fn judge_inner(base: &Base, m: &Mutation, path: &std::path::Path, extra_commit: bool, touched_semantic: bool) -> Verdict {
    crate::report::progress();
    let reg = if m.bytes.len() == 1 { region(m.bytes[0].0).to_string() } else { m.what.clone() };
    let damaged_is_newest = m.slot == base.newest_slot;
    let intact_state = if damaged_is_newest { &base.s_prev } else { &base.s_new };
    let h = &base.history;
    let r = util::catch(|| -> Result<(MBucket, Option<String>), String> {
        let db = exec::open_db(path, h).map_err(|e| format!("{}", e))?;
        let got = {
            let tx = db.tx(false).map_err(|e| format!("{}", e))?;
            exec::dump_tx(&tx)?
        };
        let mut after: Option<String> = None;
        // the state the database fell back to must be sound as a whole (tree AND free list), not only readable
        if let Err(e) = db.check() {
            after = Some(format!("DB::check right after opening the damaged file: {}", e));
        }
        if extra_commit {
            // the database must keep working after the fallback
            let tx = db.tx(true).map_err(|e| format!("{}", e))?;
            let b = tx.get_or_create_bucket("after-damage").map_err(|e| format!("{}", e))?;
            b.put("k", "v").map_err(|e| format!("{}", e))?;
            tx.commit().map_err(|e| format!("commit after fallback: {}", e))?;
            if let Err(e) = db.check() {
                after = Some(format!("DB::check after a commit on the fallen-back state: {}", e));
            }
        }
        Ok((got, after))
    });
    match r {
        Err(p) => Verdict::Bad(
            format!("hdr-damage:{}:open-panics", reg),
            format!("{:?} ({}): open/read panicked at {}:{}: {}", m.bytes.iter().take(4).collect::<Vec<_>>(), m.what, p.file, p.line, p.msg),
        ),
        Ok(Err(e)) => Verdict::Bad(
            format!("hdr-damage:{}:open-fails", reg),
            format!("{:?} ({}): open/read failed: {}", m.bytes.iter().take(4).collect::<Vec<_>>(), m.what, e),
        ),
        Ok(Ok((got, after))) => {
            if let Some(a) = after {
                return Verdict::Bad(format!("hdr-damage:{}:unsound-after-fallback", reg), a);
            }
            let is_intact = got.diff(intact_state, false).is_none();
            let is_new = got.diff(&base.s_new, false).is_none();
            let is_prev = got.diff(&base.s_prev, false).is_none();
            if touched_semantic {
                if is_intact {
                    Verdict::Ok(if damaged_is_newest { "fell-back-to-previous" } else { "kept-newest" })
                } else if is_new || is_prev {
                    Verdict::Bad(
                        format!("hdr-damage:{}:damaged-header-trusted", reg),
                        format!("{:?} ({}) in the {} header: the database shows the state of the damaged header instead of the intact one", m.bytes.iter().take(4).collect::<Vec<_>>(), m.what, if damaged_is_newest { "newest" } else { "older" }),
                    )
                } else {
                    Verdict::Bad(
                        format!("hdr-damage:{}:neither-state", reg),
                        format!("{:?} ({}): contents equal neither recorded state: {:?}", m.bytes.iter().take(4).collect::<Vec<_>>(), m.what, got.diff(intact_state, false)),
                    )
                }
            } else if is_new || is_prev {
                Verdict::Ok(if is_new { "uninterpreted-byte:newest" } else { "uninterpreted-byte:previous" })
            } else {
                Verdict::Bad(
                    format!("hdr-damage:{}:neither-state", reg),
                    format!("{:?} ({}): contents equal neither recorded state", m.bytes.iter().take(4).collect::<Vec<_>>(), m.what),
                )
            }
        }
    }
}

pub fn run(ctx: &Ctx) -> Shard {
    let mut shard = Shard::new("C12");
    let scratch = Scratch::new("C12");
    // A header whose damaged page count is trusted can make a commit extend the file by gigabytes;
    // scratch files live in memory (tmpfs), so cap what this process may write (the failed extension
    // is then reported like any other failure after the fallback).
    unsafe {
        libc::signal(libc::SIGXFSZ, libc::SIG_IGN);
        let lim = libc::rlimit { rlim_cur: 256 << 20, rlim_max: 256 << 20 };
        libc::setrlimit(libc::RLIMIT_FSIZE, &lim);
    }
    let sizes: Vec<u64> = if ctx.thorough() { vec![1024, 4096] } else { vec![1024] };
    let max_commits = 6usize;
    let cur = std::env::var("VH_CURRENT").ok();
    let mut idx: u64 = 0;
    let mut rng = Rng::new(ctx.seed ^ 0xC12);
    let path = scratch.fresh("mut");
    if let Some(rp) = &ctx.replay {
        let doc: serde_json::Value = serde_json::from_slice(&std::fs::read(rp).expect("read replay")).expect("parse");
        let m: Mutation = serde_json::from_value(doc["case"]["mutation"].clone()).expect("mutation");
        let ps = doc["case"]["pagesize"].as_u64().unwrap_or(1024);
        let seed = doc["case"]["base_seed"].as_u64().unwrap_or(ctx.seed);
        let base = if doc["case"]["kind"] == "c12-foreign" {
            build_foreign(&serde_json::from_value(doc["case"]["spec"].clone()).expect("spec"), ctx, &scratch).expect("base")
        } else if doc["case"]["kind"] == "c12-small" {
            base_from_history(serde_json::from_value(doc["case"]["history"].clone()).expect("history"), &scratch).expect("base")
        } else {
            make_base(ps, m.commits, seed, &scratch).expect("base")
        };
        shard.evaluations += 1;
        prepare(&base, &path);
        if let Verdict::Bad(sig, detail) = judge(&base, &m, &path, true) {
            shard.violation(ctx, &sig, &detail, &doc["case"]);
        }
        return shard;
    }
    let mut all_single_bytes = true;
    for ps in sizes {
        for commits in 0..=max_commits {
            let base = match make_base(ps, commits, ctx.seed, &scratch) {
                Ok(b) => b,
                Err(e) => {
                    shard.inconclusive_or_workload(ctx, &format!("[base file with {} commits]", commits), &e, &serde_json::json!({"kind": "c12-base", "pagesize": ps, "commits": commits, "base_seed": ctx.seed}));
                    continue;
                }
            };
            shard.set("base_files(pagesize,commits,newest_slot)", format!("ps={} commits={} newest header in slot {}", ps, commits, base.newest_slot));
            prepare(&base, &path);
            for slot in 0..2u64 {
                let mut muts: Vec<Mutation> = Vec::new();
                let full_upto = if ctx.thorough() { ps as usize } else { 128 };
                for off in 0..ps as usize {
                    let orig = base.image[(slot * ps) as usize + off];
                    if off < full_upto {
                        for v in 0..=255u8 {
                            if v != orig {
                                muts.push(Mutation { commits, slot, bytes: vec![(off, v)], what: "single byte".into() });
                            }
                        }
                    } else {
                        for v in [orig ^ 0xff, orig.wrapping_add(1), orig ^ 0x80] {
                            muts.push(Mutation { commits, slot, bytes: vec![(off, v)], what: "single byte".into() });
                        }
                    }
                }
                if full_upto < ps as usize {
                    all_single_bytes = false;
                }
                muts.push(Mutation { commits, slot, bytes: (0..ps as usize).map(|o| (o, 0u8)).collect(), what: "page-zeroed".into() });
                muts.push(Mutation { commits, slot, bytes: (0..ps as usize).map(|o| (o, 0xffu8)).collect(), what: "page-all-ones".into() });
                muts.push(Mutation { commits, slot, bytes: (0..512usize).map(|o| (o, 0u8)).collect(), what: "first-sector-zeroed".into() });
                let n_multi = if ctx.thorough() { 2000 } else { 150 };
                for _ in 0..n_multi {
                    let n = rng.range(2, 24) as usize;
                    let start = if rng.chance(3, 4) { rng.usize(112) } else { rng.usize(ps as usize - 24) };
                    let bytes: Vec<(usize, u8)> = (0..n).map(|i| (start + i, rng.below(256) as u8)).collect();
                    muts.push(Mutation { commits, slot, bytes, what: "random-multi-byte".into() });
                }
                // a torn header write: the first k 8-byte words of the OTHER header's record copied in
                for k in 1..13usize {
                    let other = ((1 - slot) * ps) as usize;
                    let bytes: Vec<(usize, u8)> = (0..k * 8).map(|o| (o, base.image[other + o])).collect();
                    muts.push(Mutation { commits, slot, bytes, what: "prefix-of-other-header".into() });
                }
                for m in muts {
                    idx += 1;
                    if idx % ctx.nshards != ctx.shard {
                        continue;
                    }
                    if let Some(c) = &cur {
                        if idx % 64 == ctx.shard {
                            let _ = std::fs::write(c, serde_json::to_vec(&serde_json::json!({"mutation": m, "pagesize": ps, "base_seed": ctx.seed})).unwrap());
                        }
                    }
                    shard.evaluations += 1;
                    let extra = shard.evaluations % 16 == 0;
                    match judge(&base, &m, &path, extra) {
                        Verdict::Ok(kind) => {
                            shard.count(&format!("outcome:{}", kind), 1);
                            if kind != "no-op" {
                                let reg = if m.bytes.len() == 1 { region(m.bytes[0].0).to_string() } else { m.what.clone() };
                                shard.count(&format!("region:{}", reg), 1);
                                let hh = util::fnv64(format!("{}|{}|{}|{:?}", ps, commits, slot, m.bytes.iter().take(24).collect::<Vec<_>>()).as_bytes());
                                shard.distinct.insert(hh);
                                if m.bytes.iter().any(|(o, _)| semantic(*o)) {
                                    shard.nontrivial.insert(hh);
                                }
                            }
                            if extra {
                                shard.count("opens_followed_by_a_commit_and_check", 1);
                            }
                        }
                        Verdict::Bad(sig, detail) => {
                            let replay = serde_json::json!({"kind": "c12", "mutation": m, "pagesize": ps, "base_seed": ctx.seed});
                            shard.violation(ctx, &sig, &detail, &replay);
                        }
                    }
                    if shard.samples.len() < 2 && m.bytes.len() == 1 && semantic(m.bytes[0].0) {
                        shard.sample(serde_json::json!({"pagesize": ps, "commits_in_file": commits, "header_slot": slot, "offset": m.bytes[0].0, "new_byte": m.bytes[0].1, "region": region(m.bytes[0].0)}));
                    }
                }
            }
        }
    }
    // ---- files that are exactly as long as their contents (never grown), for every small initial page
    // count, and files whose newest commit changed nothing: a reduced mutation set on each
    let put = |i: u64| Op::Put { h: 0, k: K::lit(b"commit"), v: V { tag: i + 1, len: 9 }, how: How::Slice, vhow: How::Slice };
    let mut small: Vec<(String, History)> = Vec::new();
    for np in 4..=16usize {
        for commits in 1..=3u64 {
            let txs: Vec<TxScript> = (0..commits).map(|i| TxScript { ops: vec![Op::TxGetOrCreate { k: K::lit(b"marker"), how: How::Slice }, put(i)], end: End::Commit, reopen: false }).collect();
            small.push((format!("{} initial pages, {} commits", np, commits), History { pagesize: 1024, num_pages: np, strict: false, populate: false, txs, origin: "small".into(), pins: vec![] }));
        }
    }
    for (what, last_ops) in [("empty", vec![]), ("reads only", vec![Op::TxBuckets, Op::TxGet { k: K::lit(b"marker"), how: How::Slice }, Op::Get { h: 0, k: K::lit(b"commit") }]), ("get_or_create of an existing bucket", vec![Op::TxGetOrCreate { k: K::lit(b"marker"), how: How::Slice }])] {
        for commits in 1..=3u64 {
            let mut txs: Vec<TxScript> = (0..commits).map(|i| TxScript { ops: vec![Op::TxGetOrCreate { k: K::lit(b"marker"), how: How::Slice }, put(i)], end: End::Commit, reopen: false }).collect();
            txs.push(TxScript { ops: last_ops.clone(), end: End::Commit, reopen: false });
            small.push((format!("{} commits then a write transaction that changes nothing ({})", commits, what), History { pagesize: 1024, num_pages: 8, strict: false, populate: false, txs, origin: "noop-last".into(), pins: vec![] }));
        }
    }
    // a free list of several pages (a 200-page bucket deleted) followed by small commits: falling back to the
    // previous header also means loading the PREVIOUS free list, which must still be intact
    for extra_small in 1..=3usize {
        if let Some(mut h) = crate::shape::big_freelist_history(1024, 0) {
            h.txs.truncate(2 + extra_small);
            for t in h.txs.iter_mut() {
                t.reopen = false;
            }
            small.push((format!("multi-page free list, {} small commit(s) after the big deletion", extra_small), h));
        }
    }
    for (label, h) in small {
        let base = match base_from_history(h, &scratch) {
            Ok(b) => b,
            Err(e) => {
                shard.inconclusive_or_workload(ctx, &format!("[{}]", label), &e, &serde_json::json!({"kind": "c12-small-base", "label": label}));
                continue;
            }
        };
        shard.count("small_and_noop_base_files", 1);
        prepare(&base, &path);
        let commits = base.history.txs.len();
        for slot in 0..2u64 {
            let mut muts: Vec<Mutation> = Vec::new();
            muts.push(Mutation { commits, slot, bytes: (0..1024usize).map(|o| (o, 0u8)).collect(), what: "page-zeroed".into() });
            muts.push(Mutation { commits, slot, bytes: (0..512usize).map(|o| (o, 0u8)).collect(), what: "first-sector-zeroed".into() });
            for off in [8usize, 32, 36, 40, 48, 56, 64, 72, 80, 88, 95, 96, 103] {
                let orig = base.image[(slot * 1024) as usize + off];
                for v in [orig ^ 0xff, orig.wrapping_add(1)] {
                    muts.push(Mutation { commits, slot, bytes: vec![(off, v)], what: "single byte".into() });
                }
            }
            for m in muts {
                idx += 1;
                if idx % ctx.nshards != ctx.shard {
                    continue;
                }
                shard.evaluations += 1;
                match judge(&base, &m, &path, idx % 2 == 0) {
                    Verdict::Ok(kind) => {
                        shard.count(&format!("outcome:{}", kind), 1);
                        shard.count("mutations_on_small_and_noop_base_files", 1);
                    }
                    Verdict::Bad(sig, detail) => {
                        let replay = serde_json::json!({"kind": "c12-small", "label": label, "mutation": m, "history": base.history});
                        shard.violation(ctx, &sig, &format!("[{}] {}", label, detail), &replay);
                    }
                }
            }
        }
    }
    // bases whose headers the current code did not (all) write: legacy-format header pairs, a legacy header next to
    // a current one (the first commit by the current code on an old file), files of the pinned release with one or
    // two further commits.  Damage to either header must fall back to the other, whoever wrote it.
    let mut specs: Vec<(String, ForeignSpec)> = Vec::new();
    let marker_history = |np: usize, commits: u64| {
        let txs: Vec<TxScript> = (0..commits).map(|i| TxScript { ops: vec![Op::TxGetOrCreate { k: K::lit(b"marker"), how: How::Slice }, put(i)], end: End::Commit, reopen: false }).collect();
        History { pagesize: 1024, num_pages: np, strict: false, populate: false, txs, origin: "small".into(), pins: vec![] }
    };
    for commits in 1..=4u64 {
        specs.push((format!("both headers in the legacy format, {} commits", commits), ForeignSpec { golden: String::new(), history: Some(marker_history(8, commits)), legacy: true, extra: 0 }));
        specs.push((format!("legacy-format file with {} commits, then one commit by the current code", commits), ForeignSpec { golden: String::new(), history: Some(marker_history(8, commits)), legacy: true, extra: 1 }));
    }
    for extra in 1..=2usize {
        specs.push((format!("file of the pinned release, {} further commit(s)", extra), ForeignSpec { golden: "golden-1024.db".into(), history: None, legacy: false, extra }));
        specs.push((format!("file of the pinned release with legacy-format headers, {} further commit(s)", extra), ForeignSpec { golden: "golden-1024.db".into(), history: None, legacy: true, extra }));
    }
    for (label, spec) in specs {
        let base = match build_foreign(&spec, ctx, &scratch) {
            Ok(b) => b,
            Err(e) => {
                shard.inconclusive_or_workload(ctx, &format!("[{}]", label), &e, &serde_json::json!({"kind": "c12-foreign-base", "label": label, "spec": spec}));
                continue;
            }
        };
        shard.count("base_files_with_headers_the_current_code_did_not_write", 1);
        prepare(&base, &path);
        let commits = spec.extra;
        for slot in 0..2u64 {
            let mut muts: Vec<Mutation> = Vec::new();
            muts.push(Mutation { commits, slot, bytes: (0..1024usize).map(|o| (o, 0u8)).collect(), what: "page-zeroed".into() });
            muts.push(Mutation { commits, slot, bytes: (0..512usize).map(|o| (o, 0u8)).collect(), what: "first-sector-zeroed".into() });
            for off in [32usize, 36, 40, 48, 56, 64, 72, 80, 88, 95, 96, 103, 104, 127] {
                let orig = base.image[(slot * 1024) as usize + off];
                for v in [orig ^ 0xff, orig.wrapping_add(1)] {
                    muts.push(Mutation { commits, slot, bytes: vec![(off, v)], what: "single byte".into() });
                }
            }
            for m in muts {
                idx += 1;
                if idx % ctx.nshards != ctx.shard {
                    continue;
                }
                shard.evaluations += 1;
                match judge(&base, &m, &path, idx % 2 == 0) {
                    Verdict::Ok(kind) => {
                        shard.count(&format!("outcome:{}", kind), 1);
                        shard.count("mutations_on_base_files_with_foreign_headers", 1);
                    }
                    Verdict::Bad(sig, detail) => {
                        let replay = serde_json::json!({"kind": "c12-foreign", "label": label, "mutation": m, "spec": spec});
                        shard.violation(ctx, &sig, &format!("[{}] {}", label, detail), &replay);
                    }
                }
            }
        }
    }
    shard.exhaustive = Some(all_single_bytes);
    shard
}
