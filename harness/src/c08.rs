//! C08 – cursors, seeks and ranges.  For every tree (committed and
//! mid-transaction) the full finite grid of seek keys and range bounds over a
//! probe-key set is enumerated and compared with BTreeMap filter semantics.
use crate::exec::{self, item_of, ExecCfg};
use crate::model::{Item, MBucket};
use crate::ops::*;
use crate::report::{Ctx, Shard};
use crate::shape::{self, BaseShape};
use crate::util::{self, show, Rng, Scratch};
use jammdb::{Bucket, ToBuckets, ToKVPairs};
use std::collections::BTreeSet;
use std::ops::Bound;

#[derive(Clone, Debug, serde::Serialize, serde::Deserialize)]
pub struct Case {
    pub pagesize: u64,
    pub build: TxScript,
    /// modifications applied in the open write transaction before the grid runs
    pub mods: Vec<Op>,
    /// run the grid in a write transaction (true) or a read-only one (false)
    pub writable: bool,
    pub label: String,
    /// probe stride for the pair grid (1 = full grid)
    pub stride: usize,
}

fn probes_for(mb: &MBucket) -> Vec<Vec<u8>> {
    let mut s: BTreeSet<Vec<u8>> = BTreeSet::new();
    s.insert(vec![]);
    s.insert(vec![0xff, 0xff, 0xff]);
    for k in mb.entries.keys() {
        s.insert(k.clone());
        let mut a = k.clone();
        a.push(0);
        s.insert(a);
        // a string just below k
        if let Some(last) = k.last() {
            let mut p = k.clone();
            if *last > 0 {
                *p.last_mut().unwrap() = last - 1;
                p.push(0xff);
            } else {
                p.pop();
            }
            s.insert(p);
        }
    }
    s.into_iter().collect()
}

fn bounds_of<'a>(kind: u8, k: &'a [u8]) -> Bound<&'a [u8]> {
    match kind {
        0 => Bound::Included(k),
        1 => Bound::Excluded(k),
        _ => Bound::Unbounded,
    }
}

fn drain<I: Iterator>(mut it: I, f: impl Fn(I::Item) -> Item) -> (Vec<Item>, bool) {
    crate::report::progress();
    let mut v = Vec::new();
    for d in it.by_ref() {
        v.push(f(d));
    }
    // calling next() after the end must be harmless and keep returning None
    let mut extra = false;
    for _ in 0..3 {
        if it.next().is_some() {
            extra = true;
        }
    }
    (v, extra)
}

/// Every provided `Iterator` method an implementation could override (count, last, nth, size_hint,
/// fold, for_each, find, position, skip, step_by, max_by) must agree with what `next()` alone yields,
/// and `next()` after a method that ran off the end must keep returning None.
fn adaptors<I: Iterator>(name: &str, mk: &dyn Fn() -> I, conv: &dyn Fn(I::Item) -> Item, want: &[Item], st: &mut GridStats) -> Option<(String, String)> {
    let n = want.len();
    let bad = |what: &str, detail: String| Some((format!("{}:{}", name, what), detail));
    st.adaptor_calls += 1;
    let c = mk().count();
    if c != n {
        return bad("count", format!("count() = {}, model {}", c, n));
    }
    let l = mk().last().map(conv);
    if l.as_ref() != want.last() {
        return bad("last", format!("last() = {:?}, model {:?}", l.as_ref().map(|i| show(i.key())), want.last().map(|i| show(i.key()))));
    }
    let (lo, hi) = mk().size_hint();
    if lo > n || hi.map(|h| h < n).unwrap_or(false) {
        return bad("size_hint", format!("size_hint() = ({}, {:?}) but {} entries follow", lo, hi, n));
    }
    let mut ks: Vec<usize> = vec![0, 1, n / 2, n.saturating_sub(1), n, n + 3];
    ks.dedup();
    for k in ks {
        st.adaptor_calls += 4;
        let mut it = mk();
        let got = it.nth(k).map(conv);
        if got.as_ref() != want.get(k) {
            return bad("nth", format!("nth({}) = {:?}, model {:?}", k, got.as_ref().map(|i| show(i.key())), want.get(k).map(|i| show(i.key()))));
        }
        // the rest through next(), then next() after the end
        let rest: Vec<Item> = it.by_ref().map(conv).collect();
        let want_rest: &[Item] = if k + 1 <= n { &want[k + 1..] } else { &[] };
        if rest != want_rest {
            return bad("after-nth", format!("after nth({}) the iterator yields {} entries, model {}", k, rest.len(), want_rest.len()));
        }
        for _ in 0..3 {
            if it.next().is_some() {
                return bad("yields-after-end", format!("next() after nth({}) and exhaustion yielded an entry", k));
            }
        }
        // a hint taken midway
        let mut it = mk();
        let taken = k.min(n);
        for _ in 0..taken {
            it.next();
        }
        let (lo, hi) = it.size_hint();
        if lo > n - taken || hi.map(|h| h < n - taken).unwrap_or(false) {
            return bad("size_hint", format!("after {} entries size_hint() = ({}, {:?}) but {} follow", taken, lo, hi, n - taken));
        }
        let sk: Vec<Item> = mk().skip(k).map(conv).collect();
        if sk != want[k.min(n)..] {
            return bad("skip", format!("skip({}) yields {} entries, model {}", k, sk.len(), n - k.min(n)));
        }
        if k >= 1 {
            let sb: Vec<Item> = mk().step_by(k).map(conv).collect();
            let wb: Vec<Item> = want.iter().step_by(k).cloned().collect();
            if sb != wb {
                return bad("step_by", format!("step_by({}) yields {} entries, model {}", k, sb.len(), wb.len()));
            }
        }
    }
    let folded = mk().fold(Vec::new(), |mut v, d| {
        v.push(conv(d));
        v
    });
    if folded != want {
        return bad("fold", format!("fold visits {} entries, model {}", folded.len(), n));
    }
    let mut each = Vec::new();
    mk().for_each(|d| each.push(conv(d)));
    if each != want {
        return bad("for_each", format!("for_each visits {} entries, model {}", each.len(), n));
    }
    if n > 0 {
        let target = want[n - 1].clone();
        let pos = mk().map(conv).position(|i| i == target);
        if pos != Some(n - 1) {
            return bad("position", format!("position(last entry) = {:?}, model {}", pos, n - 1));
        }
        let mut it = mk();
        let mut seen = 0usize;
        let found = it.find(|_| {
            seen += 1;
            seen == n
        });
        if found.map(conv).as_ref() != want.last() || it.next().is_some() {
            return bad("find", "find(last entry) disagrees with the model or the iterator continues after it".into());
        }
    }
    None
}

pub struct GridStats {
    pub adaptor_calls: u64,
    pub seeks: u64,
    pub ranges: u64,
    pub filtered: u64,
    pub after_end_calls: u64,
    pub items_compared: u64,
}

/// Runs the whole grid on one bucket; returns the first disagreement.
pub fn grid(b: &Bucket, mb: &MBucket, stride: usize, st: &mut GridStats) -> Option<(String, String)> {
    let all = mb.items();
    let probes = probes_for(mb);
    // full scan + repeated next() after exhaustion
    {
        let (got, extra) = drain(b.cursor(), |d| item_of(&d));
        st.after_end_calls += 3;
        if extra {
            return Some(("cursor:yields-after-end".into(), "next() after exhaustion yielded an item".into()));
        }
        if got != all {
            return Some((
                format!("cursor:{}", if got.len() < all.len() { "missing" } else { "wrong" }),
                format!("full scan yields {} items, model {}", got.len(), all.len()),
            ));
        }
        st.items_compared += all.len() as u64;
    }
    // the provided Iterator methods on every kind of iterator
    {
        let kvs: Vec<Item> = all.iter().filter(|i| matches!(i, Item::Kv(..))).cloned().collect();
        let bks: Vec<Item> = all.iter().filter(|i| matches!(i, Item::Bucket(..))).cloned().collect();
        if let Some(v) = adaptors("cursor", &|| b.cursor(), &|d| item_of(&d), &all, st) {
            return Some(v);
        }
        if let Some(v) = adaptors("kv_pairs", &|| b.kv_pairs(), &|kv| Item::Kv(kv.key().to_vec(), kv.value().to_vec()), &kvs, st) {
            return Some(v);
        }
        if let Some(v) = adaptors("buckets", &|| b.buckets(), &|(n, _)| Item::Bucket(n.name().to_vec()), &bks, st) {
            return Some(v);
        }
        // ranges: three pairs of bounds taken from the probe set
        if probes.len() >= 2 {
            for (ai, bi) in [(0usize, probes.len() - 1), (probes.len() / 3, probes.len() * 2 / 3), (probes.len() / 2, probes.len() - 1)] {
                let (a, z): (&[u8], &[u8]) = (probes[ai].as_slice(), probes[bi].as_slice());
                let want = mb.items_in(Bound::Included(a), Bound::Excluded(z));
                if let Some(v) = adaptors("range", &|| b.range(a..z), &|d| item_of(&d), &want, st) {
                    return Some(v);
                }
                let want = mb.items_in(Bound::Excluded(a), Bound::Unbounded);
                if let Some(v) = adaptors("range", &|| b.range((Bound::Excluded(a), Bound::Unbounded)), &|d| item_of(&d), &want, st) {
                    return Some(v);
                }
            }
        }
    }
    // every seek
    for k in &probes {
        st.seeks += 1;
        if let Some(d) = exec::check_seek(b, mb, &all, k) {
            return Some(("seek:wrong".into(), d));
        }
    }
    // filtered iterators on the plain cursor
    {
        let (got, extra) = drain(b.kv_pairs(), |kv| Item::Kv(kv.key().to_vec(), kv.value().to_vec()));
        let want: Vec<Item> = all.iter().filter(|i| matches!(i, Item::Kv(..))).cloned().collect();
        st.filtered += 1;
        if got != want || extra {
            return Some(("kv_pairs:wrong".into(), format!("kv_pairs yields {} model {}", got.len(), want.len())));
        }
        let (got, extra) = drain(b.buckets(), |(n, _)| Item::Bucket(n.name().to_vec()));
        let want: Vec<Item> = all.iter().filter(|i| matches!(i, Item::Bucket(..))).cloned().collect();
        st.filtered += 1;
        if got != want || extra {
            return Some(("buckets:wrong".into(), format!("buckets yields {} model {}", got.len(), want.len())));
        }
    }
    // every pair of bounds of every kind, through the (Bound, Bound) implementation
    let sub: Vec<&Vec<u8>> = probes.iter().step_by(stride.max(1)).collect();
    for (ia, a) in sub.iter().enumerate() {
        for (ib, bb) in sub.iter().enumerate() {
            for lk in 0..3u8 {
                for hk in 0..3u8 {
                    // unbounded sides do not depend on the key: do them once
                    if (lk == 2 && ia != 0) || (hk == 2 && ib != 0) {
                        continue;
                    }
                    let lo = bounds_of(lk, a);
                    let hi = bounds_of(hk, bb);
                    let want = mb.items_in(lo, hi);
                    let (got, extra) = drain(b.range((lo, hi)), |d| item_of(&d));
                    st.ranges += 1;
                    st.after_end_calls += 3;
                    st.items_compared += want.len() as u64;
                    if got != want || extra {
                        let kind = if extra {
                            "yields-after-end"
                        } else if got.len() < want.len() {
                            "missing"
                        } else {
                            "wrong"
                        };
                        return Some((
                            format!("range:{}:{}", bound_name(lk, hk), kind),
                            format!(
                                "range(({:?} {}, {:?} {})) yields {} items (first {}), model {} (first {})",
                                lk,
                                show(a),
                                hk,
                                show(bb),
                                got.len(),
                                got.first().map(|i| show(i.key())).unwrap_or("-".into()),
                                want.len(),
                                want.first().map(|i| show(i.key())).unwrap_or("-".into()),
                            ),
                        ));
                    }
                    // filters over ranges, on a thinner sample
                    if (ia + ib) % 5 == 0 {
                        let (g2, _) = drain(b.range((lo, hi)).to_kv_pairs(), |kv| {
                            Item::Kv(kv.key().to_vec(), kv.value().to_vec())
                        });
                        let w2: Vec<Item> = want.iter().filter(|i| matches!(i, Item::Kv(..))).cloned().collect();
                        let (g3, _) = drain(b.range((lo, hi)).to_buckets(), |(n, _)| Item::Bucket(n.name().to_vec()));
                        let w3: Vec<Item> = want.iter().filter(|i| matches!(i, Item::Bucket(..))).cloned().collect();
                        st.filtered += 2;
                        if g2 != w2 {
                            return Some(("range.kv_pairs:wrong".into(), format!("range({}, {}).to_kv_pairs differs", show(a), show(bb))));
                        }
                        if g3 != w3 {
                            return Some(("range.buckets:wrong".into(), format!("range({}, {}).to_buckets differs", show(a), show(bb))));
                        }
                    }
                }
            }
            // native range syntaxes
            let (a, bb): (&[u8], &[u8]) = (a.as_slice(), bb.as_slice());
            let checks: [(&str, Vec<Item>, Vec<Item>); 2] = [
                ("a..b", b.range(a..bb).map(|d| item_of(&d)).collect(), mb.items_in(Bound::Included(a), Bound::Excluded(bb))),
                ("a..=b", b.range(a..=bb).map(|d| item_of(&d)).collect(), mb.items_in(Bound::Included(a), Bound::Included(bb))),
            ];
            for (name, got, want) in checks.iter() {
                st.ranges += 1;
                if got != want {
                    return Some((format!("range:{}:wrong", name), format!("range {} with a={} b={} differs from the model", name, show(a), show(bb))));
                }
            }
        }
        let a: &[u8] = a.as_slice();
        let checks: [(&str, Vec<Item>, Vec<Item>); 3] = [
            ("a..", b.range(a..).map(|d| item_of(&d)).collect(), mb.items_in(Bound::Included(a), Bound::Unbounded)),
            ("..b", b.range(..a).map(|d| item_of(&d)).collect(), mb.items_in(Bound::Unbounded, Bound::Excluded(a))),
            ("..=b", b.range(..=a).map(|d| item_of(&d)).collect(), mb.items_in(Bound::Unbounded, Bound::Included(a))),
        ];
        for (name, got, want) in checks.iter() {
            st.ranges += 1;
            if got != want {
                return Some((format!("range:{}:wrong", name), format!("range {} with key {} differs from the model", name, show(a))));
            }
        }
    }
    {
        let got: Vec<Item> = b.range::<std::ops::RangeFull>(..).map(|d| item_of(&d)).collect();
        st.ranges += 1;
        if got != all {
            return Some(("range:..:wrong".into(), "range(..) differs from a full scan".into()));
        }
    }
    None
}

fn bound_name(lk: u8, hk: u8) -> String {
    let n = |k| match k {
        0 => "inc",
        1 => "exc",
        _ => "unb",
    };
    format!("{}-{}", n(lk), n(hk))
}

/// Execute one case; returns disagreement (signature, detail) if any.
pub fn run_case(c: &Case, path: &std::path::Path, st: &mut GridStats, shard: &mut Shard) -> Result<Option<(String, String)>, String> {
    let h = History {
        pagesize: c.pagesize,
        num_pages: 8,
        strict: false,
        populate: false,
        txs: vec![c.build.clone()],
        origin: c.label.clone(),
        pins: vec![],
    };
    let _ = std::fs::remove_file(path);
    let out = exec::run_history(&h, &ExecCfg::default(), path);
    if out.aborted {
        return Err(crate::report::workload_failure(out.violations.first(), "building the tree was cut short"));
    }
    // model of bucket t after build
    let mut model = MBucket::default();
    apply_model(&mut model, &c.build.ops);
    let db = exec::open_db(path, &h).map_err(|e| e.to_string())?;
    let keys: Vec<Vec<u8>> = c
        .mods
        .iter()
        .map(|op| match op {
            Op::Put { k, .. } | Op::Delete { k, .. } | Op::Create { k, .. } | Op::DeleteB { k, .. } => k.bytes(),
            _ => vec![],
        })
        .collect();
    let vals: Vec<Vec<u8>> = c
        .mods
        .iter()
        .map(|op| match op {
            Op::Put { v, .. } => v.bytes(),
            _ => vec![],
        })
        .collect();
    let r = util::catch(|| -> Result<Option<(String, String)>, String> {
        let tx = db.tx(c.writable).map_err(|e| e.to_string())?;
        let b = tx.get_bucket("t").map_err(|e| e.to_string())?;
        let mut mt = model.at(&[b"t".to_vec()]).cloned().unwrap_or_default();
        for (i, op) in c.mods.iter().enumerate() {
            match op {
                Op::Put { .. } => {
                    let r = b.put(keys[i].as_slice(), vals[i].as_slice()).is_ok();
                    let m = mt.put(&keys[i], &vals[i]).is_ok();
                    if r != m {
                        return Err(format!("{}modification|a put / delete inside the write transaction returned a different outcome than the model", crate::report::WORKLOAD_FAILED));
                    }
                }
                Op::Delete { .. } => {
                    let r = b.delete(keys[i].as_slice());
                    let m = mt.delete(&keys[i]);
                    if r.is_ok() != m.is_ok() {
                        return Err(format!("{}modification|a put / delete inside the write transaction returned a different outcome than the model", crate::report::WORKLOAD_FAILED));
                    }
                }
                Op::Create { .. } => {
                    let r = b.create_bucket(keys[i].as_slice()).is_ok();
                    let m = mt.create_bucket(&keys[i]).is_ok();
                    if r != m {
                        return Err(format!("{}modification|a bucket creation / deletion inside the write transaction returned a different outcome than the model", crate::report::WORKLOAD_FAILED));
                    }
                }
                Op::DeleteB { .. } => {
                    let r = b.delete_bucket(keys[i].as_slice()).is_ok();
                    let m = mt.delete_bucket(&keys[i]).is_ok();
                    if r != m {
                        return Err(format!("{}modification|a bucket creation / deletion inside the write transaction returned a different outcome than the model", crate::report::WORKLOAD_FAILED));
                    }
                }
                _ => {}
            }
        }
        shard.set(
            "grids(entries,writable,mods)",
            format!("{} entries, writable={}, {} mods", mt.entries.len(), c.writable, c.mods.len()),
        );
        Ok(grid(&b, &mt, c.stride, st))
    });
    match r {
        Ok(x) => x,
        Err(p) => Ok(Some((
            format!("grid:{}", util::panic_signature(&p)),
            format!("panic at {}:{}: {}", p.file, p.line, p.msg),
        ))),
    }
}

fn apply_model(root: &mut MBucket, ops: &[Op]) {
    // build scripts only use TxCreate t, Put/Create on handle 0 and Put into fresh sub-buckets
    let mut handles: Vec<Vec<Vec<u8>>> = Vec::new();
    for op in ops {
        match op {
            Op::TxCreate { k, .. } => {
                let _ = root.create_bucket(&k.bytes());
                handles.push(vec![k.bytes()]);
            }
            Op::Create { h, k, .. } => {
                let p = handles[*h].clone();
                let _ = root.at_mut(&p).unwrap().create_bucket(&k.bytes());
                let mut np = p;
                np.push(k.bytes());
                handles.push(np);
            }
            Op::Put { h, k, v, .. } => {
                let p = handles[*h].clone();
                let _ = root.at_mut(&p).unwrap().put(&k.bytes(), &v.bytes());
            }
            _ => {}
        }
    }
}

fn shape_cases(ps: u64, thorough: bool, scratch: &Scratch) -> Vec<Case> {
    let mut out = Vec::new();
    let mut shapes: Vec<BaseShape> = vec![BaseShape {
        name: "empty",
        n_keys: 0,
        key_len: 8,
        val_len: 10,
        bucket_every: None,
    }];
    shapes.extend(shape::base_shapes(ps, thorough));
    for bs in shapes {
        let build = shape::build_tx(&bs);
        let full = bs.n_keys <= 14;
        let stride = if full { 1 } else if thorough { 2 } else { 5 };
        let mk = |label: &str, writable: bool, mods: Vec<Op>| Case {
            pagesize: ps,
            build: build.clone(),
            mods,
            writable,
            label: format!("{} / {}", bs.name, label),
            stride,
        };
        out.push(mk("committed, read-only tx", false, vec![]));
        out.push(mk("committed, write tx untouched", true, vec![]));
        if bs.n_keys == 0 {
            continue;
        }
        let plan = match shape::plan(&bs, ps, &scratch.fresh("plan"), 8) {
            Ok(p) => p,
            Err(_) => continue,
        };
        let key = |i: usize, sub: usize| -> K {
            let pre = format!("s{:04}", i * 10 + sub).into_bytes();
            K {
                fill: bs.key_len.saturating_sub(pre.len()),
                pre,
                post: vec![],
            }
        };
        let is_b = |i: usize| matches!(bs.bucket_every, Some(n) if i % n == 1);
        let del = |i: usize| -> Op {
            if is_b(i) {
                Op::DeleteB { h: 0, k: key(i, 0), how: How::Slice }
            } else {
                Op::Delete { h: 0, k: key(i, 0) }
            }
        };
        let ins = |i: usize, t: u64| Op::Put {
            h: 0,
            k: key(i, 5),
            v: V { tag: t, len: bs.val_len },
            how: How::Slice,
            vhow: How::Slice,
        };
        let nl = plan.leaves.len();
        let mut leaf_sets: Vec<(String, Vec<usize>)> = Vec::new();
        if nl >= 1 {
            leaf_sets.push(("empty first leaf".into(), plan.leaves[0].clone()));
            leaf_sets.push(("empty last leaf".into(), plan.leaves[nl - 1].clone()));
        }
        if nl >= 3 {
            leaf_sets.push(("empty middle leaf".into(), plan.leaves[nl / 2].clone()));
            let mut two = plan.leaves[nl / 2].clone();
            two.extend(plan.leaves[nl / 2 + 1].iter());
            leaf_sets.push(("empty two adjacent leaves".into(), two));
            let mut firsts = plan.leaves[0].clone();
            firsts.extend(plan.leaves[1].iter());
            leaf_sets.push(("empty first two leaves".into(), firsts));
        }
        for (label, idx) in leaf_sets {
            out.push(mk(&format!("mid-tx: {}", label), true, idx.iter().map(|i| del(*i)).collect()));
        }
        out.push(mk(
            "mid-tx: delete every second entry",
            true,
            (0..bs.n_keys).step_by(2).map(del).collect(),
        ));
        out.push(mk(
            "mid-tx: delete everything",
            true,
            (0..bs.n_keys).map(del).collect(),
        ));
        out.push(mk(
            "mid-tx: insert between all entries",
            true,
            (0..bs.n_keys).map(|i| ins(i, 100 + i as u64)).collect(),
        ));
        let mut mixed = Vec::new();
        for i in 0..bs.n_keys {
            if i % 3 == 0 {
                mixed.push(del(i));
            }
            if i % 4 == 1 {
                mixed.push(ins(i, 500 + i as u64));
            }
        }
        out.push(mk("mid-tx: mixed deletes and inserts", true, mixed));
    }
    out
}

fn random_case(rng: &mut Rng, ps: u64) -> Case {
    // random key set with random mods
    let n = rng.range(1, 40) as usize;
    let klen = *rng.pick(&[2usize, 8, 40, 200]);
    let vlen = *rng.pick(&[0usize, 10, (ps / 5) as usize, (ps / 2) as usize]);
    let mut ops = vec![Op::TxCreate { k: K::lit(b"t"), how: How::Slice }];
    let mut nh = 1;
    let mut present = Vec::new();
    for i in 0..n {
        let id = rng.below(60) as usize;
        let pre = format!("{:02}", id).into_bytes();
        let k = K { fill: klen.saturating_sub(pre.len()), pre, post: vec![] };
        if rng.chance(1, 8) {
            ops.push(Op::Create { h: 0, k: k.clone(), how: How::Slice });
            nh += 1;
            let _ = nh;
        } else {
            ops.push(Op::Put { h: 0, k: k.clone(), v: V { tag: i as u64, len: vlen }, how: How::Slice, vhow: How::Slice });
        }
        present.push(k);
    }
    // the empty byte string is a legal key and a legal bucket name: it sorts before everything
    match rng.below(6) {
        0 => {
            ops.push(Op::Put { h: 0, k: K::lit(b""), v: V { tag: 5, len: vlen.min(40) }, how: How::Slice, vhow: How::Slice });
            present.push(K::lit(b""));
        }
        1 => {
            ops.push(Op::Create { h: 0, k: K::lit(b""), how: How::Slice });
            present.push(K::lit(b""));
        }
        _ => {}
    }
    // keys that are prefixes / extensions of each other
    if rng.chance(1, 4) {
        for ext in [&b"0"[..], b"00", b"00\x00", b"00\x00\x00", b"01", b"0\xff"] {
            ops.push(Op::Put { h: 0, k: K::lit(ext), v: V { tag: 6, len: 3 }, how: How::Slice, vhow: How::Slice });
            present.push(K::lit(ext));
        }
    }
    let mut mods = Vec::new();
    let writable = rng.chance(2, 3);
    if writable {
        for _ in 0..rng.below(30) {
            if rng.chance(2, 3) && !present.is_empty() {
                let k = rng.pick(&present).clone();
                mods.push(Op::Delete { h: 0, k });
            } else {
                let id = rng.below(60) as usize;
                let pre = format!("{:02}", id).into_bytes();
                let k = K { fill: klen.saturating_sub(pre.len()), pre, post: vec![] };
                mods.push(Op::Put { h: 0, k, v: V { tag: 77, len: vlen }, how: How::Slice, vhow: How::Slice });
            }
        }
    }
    Case {
        pagesize: ps,
        build: TxScript { ops, end: End::Commit, reopen: false },
        mods,
        writable,
        label: "seeded random tree".into(),
        stride: if n > 16 { 3 } else { 1 },
    }
}

pub fn run(ctx: &Ctx) -> Shard {
    let mut shard = Shard::new("C08");
    let scratch = Scratch::new("C08");
    let ps: u64 = 1024;
    let mut st = GridStats { adaptor_calls: 0, seeks: 0, ranges: 0, filtered: 0, after_end_calls: 0, items_compared: 0 };
    let mut cases: Vec<Case> = Vec::new();
    if let Some(rp) = &ctx.replay {
        let doc: serde_json::Value = serde_json::from_slice(&std::fs::read(rp).expect("read replay")).expect("parse replay");
        cases.push(serde_json::from_value(doc["case"]["grid_case"].clone()).expect("grid case"));
    } else {
        // (the sanitizer pass repeats the quick-tier trees: its allocator costs a factor of ten)
        let deep = ctx.thorough() && ctx.get("build") != Some("asan");
        let all = shape_cases(ps, deep, &scratch);
        for (i, c) in all.into_iter().enumerate() {
            if (i as u64) % ctx.nshards == ctx.shard {
                cases.push(c);
            }
        }
        if deep {
            let more = shape_cases(4096, false, &scratch);
            for (i, c) in more.into_iter().enumerate() {
                if (i as u64 + 5) % ctx.nshards == ctx.shard {
                    cases.push(c);
                }
            }
        }
        let mut rng = Rng::new(ctx.shard_seed());
        let n_random = ctx.scale(if ctx.thorough() { 1200 } else { 200 });
        for _ in 0..n_random {
            cases.push(random_case(&mut rng, ps));
        }
    }
    let mut all_full = true;
    for c in &cases {
        let before = st.ranges + st.seeks;
        if c.stride != 1 {
            all_full = false;
        }
        let path = scratch.fresh("c8");
        match run_case(c, &path, &mut st, &mut shard) {
            Ok(None) => {}
            Ok(Some((sig, detail))) => {
                let replay = serde_json::json!({"kind": "grid", "grid_case": c});
                shard.violation(ctx, &sig, &format!("[{}] {}", c.label, detail), &replay);
            }
            Err(e) => {
                // the tree could not be prepared: not a C08 verdict
                shard.inconclusive_or_workload(ctx, &format!("[{}]", c.label), &e, &serde_json::json!({"kind": "grid", "grid_case": c}));
            }
        }
        let _ = std::fs::remove_file(&path);
        shard.evaluations += 1;
        let hh = util::fnv64(serde_json::to_string(c).unwrap().as_bytes());
        shard.distinct.insert(hh);
        if st.ranges + st.seeks > before + 10 {
            shard.nontrivial.insert(hh);
        }
        shard.set("trees", c.label.clone());
        if shard.samples.len() < 2 {
            shard.sample(serde_json::json!({"tree": c.label, "writable": c.writable, "mods": c.mods.len(), "pair_grid_stride": c.stride}));
        }
    }
    shard.count("seeks", st.seeks);
    shard.count("range_scans", st.ranges);
    shard.count("filtered_iterations", st.filtered);
    shard.count("next_calls_after_exhaustion", st.after_end_calls);
    shard.count("iterator_adaptor_comparisons(count,last,nth,size_hint,skip,step_by,fold,find..)", st.adaptor_calls);
    shard.count("items_compared", st.items_compared);
    shard.exhaustive = Some(all_full);
    shard
}
