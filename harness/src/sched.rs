//! Schedule controller for C04 / C09 (DESIGN.md §2.7).
//!
//! Real threads, real locks, real file.  Worker threads stop at the yield
//! points inside jammdb (cargo feature verif-hooks) and at harness-level
//! points; in *baton* mode exactly one worker is released at a time and the
//! controller decides who.  The controller does not model jammdb's locks: a
//! released worker that blocks in the kernel is recognised by looking at its
//! thread state (/proc/self/task/<tid>/syscall shows futex), after which
//! another worker is released.  A state in which every unfinished worker sits
//! in a futex wait is a deadlock whatever the clock says.
use jammdb::verif_hooks::{self, Point};
use std::cell::Cell;
use std::sync::atomic::{AtomicBool, AtomicI32, AtomicU32, AtomicU64, AtomicU8, Ordering};
use std::sync::Arc;

pub const MAX_WORKERS: usize = 8;
pub const MODE_OFF: u8 = 0;
pub const MODE_BATON: u8 = 1;
pub const MODE_FREE: u8 = 2;

/// harness-level points get codes >= 100
pub const P_START: u32 = 100;
pub const P_BEFORE_BEGIN: u32 = 101;
pub const P_AFTER_BEGIN: u32 = 102;
pub const P_BEFORE_COMMIT: u32 = 103;
pub const P_AFTER_COMMIT: u32 = 104;
pub const P_BEFORE_DROP: u32 = 105;
pub const P_AFTER_DROP: u32 = 106;
pub const P_STEP: u32 = 107;
pub const P_WAIT: u32 = 108;

pub fn point_code(p: Point) -> u32 {
    match p {
        Point::TxBeginBeforeLock => 1,
        Point::TxBeginAfterLock => 2,
        Point::TxBeginAfterMeta => 3,
        Point::TxBeginAfterRegister => 4,
        Point::TxBeginEnd => 5,
        Point::CommitStart => 6,
        Point::CommitBeforeGrow => 7,
        Point::CommitBeforeData => 8,
        Point::CommitBeforeMeta => 9,
        Point::CommitBeforeSync => 10,
        Point::CommitBeforePublish => 11,
        Point::CommitAfterPublish => 12,
        Point::ResizeBeforeMapLock => 13,
        Point::ResizeBeforeDataLock => 14,
        Point::ResizeAfterRemap => 15,
        Point::TxDropStart => 16,
        Point::TxDropEnd => 17,
    }
}

pub fn point_name(c: u32) -> &'static str {
    match c {
        1 => "begin:before-lock",
        2 => "begin:after-lock",
        3 => "begin:after-header-read",
        4 => "begin:after-register/release",
        5 => "begin:end",
        6 => "commit:start",
        7 => "commit:before-grow",
        8 => "commit:before-data",
        9 => "commit:before-header",
        10 => "commit:before-sync",
        11 => "commit:before-publish",
        12 => "commit:after-publish",
        13 => "resize:before-map-lock",
        14 => "resize:before-map-mutex",
        15 => "resize:after-remap",
        16 => "drop:start",
        17 => "drop:end",
        100 => "thread-start",
        101 => "before-begin",
        102 => "after-begin",
        103 => "before-commit",
        104 => "after-commit",
        105 => "before-drop",
        106 => "after-drop",
        107 => "step",
        108 => "wait-for-turn",
        _ => "?",
    }
}

struct Slot {
    tid: AtomicI32,
    /// 0 = running (or not started), otherwise point code + 1 at which the worker waits
    arrived: AtomicU32,
    go: AtomicBool,
    finished: AtomicBool,
    active: AtomicBool,
    points_passed: AtomicU64,
    last_point: AtomicU32,
    /// scripted scenarios: the worker waits at P_WAIT until the global stage reaches this value (0 = not waiting)
    wait_stage: AtomicU64,
    /// per-worker log of (point code << 40 | clock) - written only by the worker itself
    log: Vec<AtomicU64>,
    log_len: std::sync::atomic::AtomicUsize,
}

pub const LOG_CAP: usize = 2048;

pub struct Inner {
    mode: AtomicU8,
    slots: Vec<Slot>,
    /// global event counter: a total order for the oracle (SeqCst)
    pub clock: AtomicU64,
    free_seed: AtomicU64,
    /// free-running mode: maximum sleep at a hook, in microseconds
    free_max_us: AtomicU64,
    /// which hook points take part (bit mask over point codes < 32); harness points always do
    hook_mask: AtomicU32,
    /// ThreadSanitizer runs: the harness must not add synchronisation of its own between the
    /// workers (shared atomics create happens-before edges that would hide races)
    pub quiet: AtomicBool,
    /// scripted scenarios: index of the next scripted action
    pub stage: AtomicU64,
}

thread_local! {
    static WORKER: Cell<Option<usize>> = const { Cell::new(None) };
    static TRNG: Cell<u64> = const { Cell::new(0) };
}

static GLOBAL: std::sync::OnceLock<Arc<Inner>> = std::sync::OnceLock::new();

pub fn global() -> Arc<Inner> {
    GLOBAL
        .get_or_init(|| {
            let inner = Arc::new(Inner {
                mode: AtomicU8::new(MODE_OFF),
                slots: (0..MAX_WORKERS)
                    .map(|_| Slot {
                        tid: AtomicI32::new(0),
                        arrived: AtomicU32::new(0),
                        go: AtomicBool::new(false),
                        finished: AtomicBool::new(false),
                        active: AtomicBool::new(false),
                        points_passed: AtomicU64::new(0),
                        last_point: AtomicU32::new(0),
                        wait_stage: AtomicU64::new(0),
                        log: (0..LOG_CAP).map(|_| AtomicU64::new(0)).collect(),
                        log_len: std::sync::atomic::AtomicUsize::new(0),
                    })
                    .collect(),
                clock: AtomicU64::new(1),
                free_seed: AtomicU64::new(1),
                free_max_us: AtomicU64::new(0),
                hook_mask: AtomicU32::new(u32::MAX),
                quiet: AtomicBool::new(false),
                stage: AtomicU64::new(0),
            });
            let h = inner.clone();
            verif_hooks::set_handler(Some(Arc::new(move |p, _w| {
                let c = point_code(p);
                if h.hook_mask.load(Ordering::Relaxed) & (1 << c) != 0 {
                    h.at(c);
                }
            })));
            inner
        })
        .clone()
}

fn short_sleep(us: u64) {
    let ts = libc::timespec { tv_sec: 0, tv_nsec: (us * 1000) as i64 };
    unsafe {
        libc::nanosleep(&ts, std::ptr::null_mut());
    }
}

impl Inner {
    pub fn tick(&self) -> u64 {
        if self.quiet.load(Ordering::Relaxed) {
            return 0;
        }
        self.clock.fetch_add(1, Ordering::SeqCst)
    }

    /// Called by workers at every yield point.
    pub fn at(&self, code: u32) {
        let id = match WORKER.with(|w| w.get()) {
            Some(id) => id,
            None => return,
        };
        if self.quiet.load(Ordering::Relaxed) {
            // thread-local jitter only
            let r = TRNG.with(|t| {
                let mut x = t.get();
                if x == 0 {
                    x = 0x2545_F491_4F6C_DD1D ^ (id as u64 + 1).wrapping_mul(0x9E37_79B9_7F4A_7C15);
                }
                x ^= x << 13;
                x ^= x >> 7;
                x ^= x << 17;
                t.set(x);
                x
            });
            if r % 8 == 0 {
                short_sleep((r >> 8) % 200);
            }
            return;
        }
        let s = &self.slots[id];
        s.points_passed.fetch_add(1, Ordering::Relaxed);
        s.last_point.store(code, Ordering::Release);
        let k = s.log_len.fetch_add(1, Ordering::Relaxed);
        if k < LOG_CAP {
            let t = self.clock.fetch_add(1, Ordering::SeqCst);
            s.log[k].store(((code as u64) << 40) | (t & ((1 << 40) - 1)), Ordering::Release);
        }
        match self.mode.load(Ordering::Acquire) {
            MODE_BATON => {
                s.arrived.store(code + 1, Ordering::Release);
                let mut spins = 0u32;
                while !s.go.swap(false, Ordering::AcqRel) {
                    spins += 1;
                    if spins < 200 {
                        std::hint::spin_loop();
                    } else {
                        short_sleep(20);
                    }
                    if self.mode.load(Ordering::Acquire) != MODE_BATON {
                        break; // controller gave up (watchdog): run free
                    }
                }
            }
            MODE_FREE => {
                let max = self.free_max_us.load(Ordering::Relaxed);
                if max > 0 {
                    let r = TRNG.with(|t| {
                        let mut x = t.get();
                        if x == 0 {
                            x = self.free_seed.fetch_add(0x9E37_79B9, Ordering::Relaxed) | 1;
                        }
                        x ^= x << 13;
                        x ^= x >> 7;
                        x ^= x << 17;
                        t.set(x);
                        x
                    });
                    // most points: no delay; some: a short one; few: a long one
                    match r % 16 {
                        0..=8 => {}
                        9..=13 => short_sleep((r >> 8) % (max / 8).max(1)),
                        _ => short_sleep((r >> 8) % max),
                    }
                }
            }
            _ => {}
        }
    }

    pub fn point(&self, code: u32) {
        self.at(code);
    }

    /// Scripted scenarios: wait until it is this action's turn (global stage >= idx).
    pub fn wait_stage(&self, idx: u64) {
        let id = WORKER.with(|w| w.get());
        let t0 = std::time::Instant::now();
        loop {
            if self.stage.load(Ordering::SeqCst) >= idx {
                break;
            }
            if self.mode.load(Ordering::Acquire) == MODE_BATON {
                if let Some(id) = id {
                    self.slots[id].wait_stage.store(idx + 1, Ordering::SeqCst);
                }
                self.at(P_WAIT);
            } else {
                short_sleep(50);
            }
            if t0.elapsed().as_secs() > 15 {
                break; // never hang the harness on a script that cannot progress
            }
        }
        if let Some(id) = id {
            self.slots[id].wait_stage.store(0, Ordering::SeqCst);
        }
    }

    pub fn bump_stage(&self) {
        self.stage.fetch_add(1, Ordering::SeqCst);
    }

    /// (point code, clock) pairs logged by worker `i` during the last run
    pub fn hook_log(&self, i: usize) -> Vec<(u32, u64)> {
        let s = &self.slots[i];
        let n = s.log_len.load(Ordering::Acquire).min(LOG_CAP);
        (0..n)
            .map(|k| {
                let v = s.log[k].load(Ordering::Acquire);
                ((v >> 40) as u32, v & ((1 << 40) - 1))
            })
            .collect()
    }

    fn reset_slots(&self) {
        for s in self.slots.iter() {
            s.arrived.store(0, Ordering::SeqCst);
            s.go.store(false, Ordering::SeqCst);
            s.finished.store(false, Ordering::SeqCst);
            s.active.store(false, Ordering::SeqCst);
            s.tid.store(0, Ordering::SeqCst);
            s.last_point.store(0, Ordering::SeqCst);
            s.wait_stage.store(0, Ordering::SeqCst);
            s.log_len.store(0, Ordering::SeqCst);
        }
        self.stage.store(0, Ordering::SeqCst);
    }
}

/// Is the thread asleep inside a futex wait?  Both conditions are needed: a thread that has been
/// woken but has not been given a CPU yet (loaded machine) still shows the futex system call, but
/// its state is R (runnable), not S (sleeping).
/// CPU time (user + system) a thread of this process has used so far, in milliseconds
fn thread_cpu_ms(tid: i32) -> u64 {
    if tid == 0 {
        return 0;
    }
    let stat = std::fs::read_to_string(format!("/proc/self/task/{}/stat", tid)).unwrap_or_default();
    let f: Vec<&str> = stat.rsplit_once(") ").map(|x| x.1.split(' ').collect()).unwrap_or_default();
    let ticks: u64 = f.get(11).and_then(|x| x.parse::<u64>().ok()).unwrap_or(0) + f.get(12).and_then(|x| x.parse::<u64>().ok()).unwrap_or(0);
    let hz = unsafe { libc::sysconf(libc::_SC_CLK_TCK) }.max(1) as u64;
    ticks * 1000 / hz
}

fn tid_in_futex(tid: i32) -> bool {
    let sys = match std::fs::read(format!("/proc/self/task/{}/syscall", tid)) {
        Ok(b) => b.starts_with(b"202 ") || b.starts_with(b"449 "), // futex, futex_waitv
        Err(_) => false,
    };
    if !sys {
        return false;
    }
    match std::fs::read(format!("/proc/self/task/{}/stat", tid)) {
        Ok(b) => match b.iter().rposition(|c| *c == b')') {
            Some(i) => b.get(i + 2) == Some(&b'S'),
            None => false,
        },
        Err(_) => false,
    }
}

#[derive(Clone, Debug, serde::Serialize, serde::Deserialize)]
pub struct Decision {
    pub enabled: Vec<usize>,
    pub chosen: usize,
    pub current: Option<usize>,
    /// point (code) at which the chosen worker was waiting
    pub at: u32,
}

#[derive(Clone, Debug, Default)]
pub struct ExecTrace {
    pub decisions: Vec<Decision>,
    pub deadlock: Option<String>,
    /// a released worker burnt CPU for the whole watchdog window without reaching a yield point, finishing or
    /// blocking: it spins (busy-waits) on something nobody will change, since every other worker is parked
    pub spin: Option<String>,
    /// a worker thread is still running after its execution was given up: the process should end
    pub runaway: bool,
    pub inconclusive: Option<String>,
    pub preemptions: u32,
    pub blocked_events: u32,
    /// (worker that blocked, its last point, last points of all workers) at each detection
    pub blocked: Vec<(usize, u32, Vec<u32>)>,
    /// unexplained blocks of examined workers that persisted: (worker, its last point, last points of all, ms observed)
    pub unexplained: Vec<(usize, u32, Vec<u32>, u64)>,
}

pub enum Strategy {
    /// follow this prefix of choices, then continue the current worker whenever possible
    Prefix(Vec<usize>),
    /// seeded random priorities with d change points (PCT-style)
    Pct { seed: u64, depth: usize, expected_steps: usize },
    /// uniformly random choice at every decision
    Random { seed: u64 },
}

pub struct Job {
    pub workers: Vec<Box<dyn FnOnce(Arc<Inner>) + Send>>,
    /// workers whose blocking is examined more closely (the readers): when one of them is found in a
    /// lock wait that no other worker's position explains, the controller keeps everybody parked and
    /// measures how long the wait persists (a wait on a lock of the allocator or of the harness, held by
    /// a descheduled thread, ends by itself within microseconds to milliseconds)
    pub examine: Vec<bool>,
}

/// the locks a reader takes after each of its yield points, and the positions of OTHER workers that
/// can legitimately be holding them (see c04.rs)
pub fn block_is_explained(last: u32, lasts: &[u32], me: usize) -> bool {
    let holders: &[u32] = match last {
        1 => &[13, 14, 15],
        2 | 16 => &[3],
        4 => &[15],
        _ => return true,
    };
    lasts.iter().enumerate().any(|(i, p)| i != me && holders.contains(p))
}

/// Run the workers under the baton.  `watchdog_ms`: generous wall-clock limit;
/// hitting it yields an inconclusive trace (never a violation).
pub fn run_baton(job: Job, strategy: Strategy, watchdog_ms: u64) -> ExecTrace {
    let g = global();
    let n = job.workers.len();
    assert!(n <= MAX_WORKERS);
    let examine = job.examine.clone();
    g.reset_slots();
    g.mode.store(MODE_BATON, Ordering::SeqCst);
    let mut handles = Vec::new();
    for (i, w) in job.workers.into_iter().enumerate() {
        let gi = g.clone();
        g.slots[i].active.store(true, Ordering::SeqCst);
        handles.push(std::thread::spawn(move || {
            WORKER.with(|c| c.set(Some(i)));
            let tid = unsafe { libc::syscall(libc::SYS_gettid) } as i32;
            gi.slots[i].tid.store(tid, Ordering::SeqCst);
            gi.point(P_START);
            let r = std::panic::catch_unwind(std::panic::AssertUnwindSafe(|| w(gi.clone())));
            gi.slots[i].finished.store(true, Ordering::SeqCst);
            WORKER.with(|c| c.set(None));
            r.is_ok()
        }));
    }
    let mut trace = ExecTrace::default();
    let start = std::time::Instant::now();
    let mut current: Option<usize> = None;
    let mut blocked = vec![false; n];
    // workers that burn CPU without reaching a yield point, finishing or blocking (they wait actively for
    // something): treated like workers blocked on a lock - not given the baton, free to arrive later
    let mut spinning = vec![false; n];
    const SPIN_CPU_MS: u64 = 1000;
    // PCT state
    let (mut prio, mut change_at): (Vec<u64>, Vec<usize>) = (vec![], vec![]);
    let mut rng = crate::util::Rng::new(match &strategy {
        Strategy::Pct { seed, .. } | Strategy::Random { seed } => *seed,
        _ => 0,
    });
    if let Strategy::Pct { depth, expected_steps, .. } = &strategy {
        prio = (0..n).map(|_| 1000 + rng.below(1000)).collect();
        change_at = (0..*depth).map(|_| rng.usize((*expected_steps).max(1))).collect();
    }
    let mut step = 0usize;
    'outer: loop {
        // 1. wait until the current worker stops running: arrives, finishes, or blocks in the kernel
        if let Some(c) = current {
            let s = &g.slots[c];
            let mut polls = 0u32;
            let mut futex_seen = 0u32;
            let released_at = std::time::Instant::now();
            let cpu_at_release = thread_cpu_ms(s.tid.load(Ordering::Acquire));
            loop {
                if s.finished.load(Ordering::Acquire) || s.arrived.load(Ordering::Acquire) != 0 {
                    break;
                }
                polls += 1;
                if polls % 256 == 0 {
                    let tid = s.tid.load(Ordering::Acquire);
                    if tid != 0 && thread_cpu_ms(tid).saturating_sub(cpu_at_release) >= SPIN_CPU_MS {
                        spinning[c] = true;
                        blocked[c] = true;
                        trace.blocked_events += 1;
                        break;
                    }
                }
                if polls < 300 {
                    std::hint::spin_loop();
                    continue;
                }
                short_sleep(15);
                if polls % 2 == 0 {
                    let tid = s.tid.load(Ordering::Acquire);
                    if tid != 0 && tid_in_futex(tid) {
                        futex_seen += 1;
                        if futex_seen >= 3 {
                            blocked[c] = true;
                            trace.blocked_events += 1;
                            let lasts: Vec<u32> = (0..n).map(|i| if g.slots[i].finished.load(Ordering::Acquire) { 0 } else { g.slots[i].last_point.load(Ordering::Acquire) }).collect();
                            if examine.get(c).copied().unwrap_or(false) && !block_is_explained(lasts[c], &lasts, c) {
                                // nobody else is running (the baton has not been handed on): a lock of the database
                                // can only be held by a parked worker, and then this wait does not end by itself
                                let t0 = std::time::Instant::now();
                                let mut still = true;
                                while t0.elapsed().as_millis() < 250 {
                                    if s.finished.load(Ordering::Acquire) || s.arrived.load(Ordering::Acquire) != 0 || !tid_in_futex(tid) {
                                        still = false;
                                        break;
                                    }
                                    short_sleep(500);
                                }
                                if still {
                                    trace.unexplained.push((c, lasts[c], lasts.clone(), t0.elapsed().as_millis() as u64));
                                }
                            }
                            trace.blocked.push((c, lasts[c], lasts));
                            break;
                        }
                    } else {
                        futex_seen = 0;
                    }
                }
                if start.elapsed().as_millis() as u64 > watchdog_ms {
                    // the clock alone decides nothing; but a thread that was ON THE CPU for most of the time since
                    // it was released, while every other worker stands still at a yield point, waits actively for
                    // something that cannot change (machine load makes a thread slower, it cannot make it use CPU)
                    let tid = s.tid.load(Ordering::Acquire);
                    let used_ms = thread_cpu_ms(tid).saturating_sub(cpu_at_release);
                    let since_ms = released_at.elapsed().as_millis() as u64;
                    if tid != 0 && since_ms >= 5_000 && used_ms * 3 >= since_ms * 2 {
                        // It may be waiting actively for something a worker does that the baton keeps parked at a
                        // yield point - an interleaving the program cannot have on its own.  So everybody is
                        // released first (no baton any more); only a thread that keeps burning CPU for another
                        // eight seconds, until every other worker has finished or sleeps on a lock, is spinning on
                        // something that nobody is going to change.
                        g.mode.store(MODE_OFF, Ordering::SeqCst);
                        for sl in g.slots.iter() {
                            sl.go.store(true, Ordering::SeqCst);
                        }
                        let t1 = std::time::Instant::now();
                        let cpu1 = thread_cpu_ms(tid);
                        while t1.elapsed().as_millis() < 6_000 && !s.finished.load(Ordering::Acquire) {
                            short_sleep(20_000);
                        }
                        if s.finished.load(Ordering::Acquire) {
                            trace.inconclusive = Some(format!("worker {} was busy for {} ms without reaching a point, but came to an end once every worker was let go: execution discarded", c, since_ms));
                        } else {
                            // nothing moves any more?  (no worker passes a yield point or ticks the event clock for two
                            // seconds: the others have finished, sleep on a lock, or spin themselves)
                            let progress = |g: &Inner| -> u64 { (0..n).map(|i| g.slots[i].points_passed.load(Ordering::Relaxed)).sum::<u64>() + g.clock.load(Ordering::Relaxed) };
                            let p0 = progress(&g);
                            let t2 = std::time::Instant::now();
                            while t2.elapsed().as_millis() < 2_000 && !s.finished.load(Ordering::Acquire) {
                                short_sleep(20_000);
                            }
                            let p1 = progress(&g);
                            let used2 = thread_cpu_ms(tid).saturating_sub(cpu1);
                            let since2 = t1.elapsed().as_millis() as u64;
                            if !s.finished.load(Ordering::Acquire) && used2 * 3 >= since2 * 2 && p1 == p0 {
                                trace.spin = Some(format!("worker {} used {} ms of CPU in the {} ms since it was released after {} without reaching a yield point, finishing or blocking, and another {} ms of {} ms after every other worker had been let go; nothing has moved for the last two seconds", c, used_ms, since_ms, point_name(s.last_point.load(Ordering::Acquire)), used2, since2));
                            } else {
                                trace.inconclusive = Some(format!("worker {} has been busy for {} ms without reaching a point and is still running after every worker was let go, but the rule for a spin is not met (CPU {} of {} ms, progress {}): no verdict", c, since_ms + since2, used2, since2, p1 != p0));
                                trace.runaway = !s.finished.load(Ordering::Acquire);
                            }
                        }
                    } else {
                        trace.inconclusive = Some(format!("watchdog: worker {} did not reach a point", c));
                    }
                    break 'outer;
                }
            }
        }
        // 1b. settle: every unfinished worker must be waiting at a point or blocked in the kernel
        // (a worker woken up by a released lock may still be on its way to its next point)
        for i in 0..n {
            let s = &g.slots[i];
            let mut futex_seen = 0u32;
            let mut polls = 0u32;
            let cpu_settle0 = thread_cpu_ms(s.tid.load(Ordering::Acquire));
            loop {
                if s.finished.load(Ordering::Acquire) || s.arrived.load(Ordering::Acquire) != 0 || spinning[i] {
                    break;
                }
                polls += 1;
                if polls % 256 == 0 && thread_cpu_ms(s.tid.load(Ordering::Acquire)).saturating_sub(cpu_settle0) >= SPIN_CPU_MS {
                    spinning[i] = true;
                    blocked[i] = true;
                    break;
                }
                if polls < 200 {
                    std::hint::spin_loop();
                    continue;
                }
                short_sleep(15);
                let tid = s.tid.load(Ordering::Acquire);
                if tid != 0 && tid_in_futex(tid) {
                    futex_seen += 1;
                    if futex_seen >= 3 {
                        break;
                    }
                } else {
                    futex_seen = 0;
                }
                if start.elapsed().as_millis() as u64 > watchdog_ms {
                    trace.inconclusive = Some(format!("watchdog: worker {} neither at a point nor blocked", i));
                    break 'outer;
                }
            }
        }
        // 2. who can be released?
        let mut all_done = true;
        let mut enabled: Vec<usize> = Vec::new();
        let mut waiting_for_turn: Vec<usize> = Vec::new();
        for i in 0..n {
            let s = &g.slots[i];
            if s.finished.load(Ordering::Acquire) {
                continue;
            }
            all_done = false;
            if s.arrived.load(Ordering::Acquire) != 0 {
                blocked[i] = false;
                spinning[i] = false;
                let ws = s.wait_stage.load(Ordering::Acquire);
                if ws == 0 || g.stage.load(Ordering::SeqCst) + 1 >= ws {
                    enabled.push(i);
                } else {
                    waiting_for_turn.push(i);
                }
            }
        }
        if all_done {
            break;
        }
        if enabled.is_empty() && !waiting_for_turn.is_empty() {
            // only workers waiting for a scripted turn that cannot come yet are at a point: if nobody
            // else is on its way (in the kernel or running), let them re-check (their wait has a time-out)
            let someone_moving = (0..n).any(|i| {
                let s = &g.slots[i];
                !s.finished.load(Ordering::Acquire) && s.arrived.load(Ordering::Acquire) == 0
            });
            if !someone_moving {
                enabled = waiting_for_turn.clone();
            }
        }
        if enabled.is_empty() {
            // nobody is at a point: either a previously blocked worker is on its way to one, or
            // every unfinished worker sits in the kernel waiting for a lock = deadlock
            let mut stuck_rounds = 0;
            let mut quiet_since: Option<(std::time::Instant, Vec<u64>)> = None;
            loop {
                short_sleep(200);
                // every unfinished worker sleeps on a lock or spins, at least one spins, nobody is at a point: nobody
                // is left who could change what the spinner waits for.  Five seconds of that, with the spinner on
                // the CPU for two thirds of them, is a wait that does not end.
                {
                    let unfinished: Vec<usize> = (0..n).filter(|i| !g.slots[*i].finished.load(Ordering::Acquire)).collect();
                    let nobody_at_a_point = unfinished.iter().all(|i| g.slots[*i].arrived.load(Ordering::Acquire) == 0);
                    let all_stuck = unfinished.iter().all(|i| spinning[*i] || { let t = g.slots[*i].tid.load(Ordering::Acquire); t != 0 && tid_in_futex(t) });
                    if !unfinished.is_empty() && nobody_at_a_point && all_stuck && unfinished.iter().any(|i| spinning[*i]) {
                        let cpus: Vec<u64> = (0..n).map(|i| thread_cpu_ms(g.slots[i].tid.load(Ordering::Acquire))).collect();
                        match &quiet_since {
                            None => quiet_since = Some((std::time::Instant::now(), cpus)),
                            Some((t, c0)) if t.elapsed().as_millis() >= 5_000 => {
                                let since = t.elapsed().as_millis() as u64;
                                if let Some(i) = unfinished.iter().find(|i| spinning[**i] && cpus[**i].saturating_sub(c0[**i]) * 3 >= since * 2) {
                                    trace.spin = Some(format!("worker {} has been on the CPU for {} of the last {} ms after {} without reaching a yield point, finishing or blocking, while every other worker has finished or sleeps on a lock: nobody is left who could end its wait", i, cpus[*i].saturating_sub(c0[*i]), since, point_name(g.slots[*i].last_point.load(Ordering::Acquire))));
                                    break 'outer;
                                }
                                quiet_since = None;
                            }
                            _ => {}
                        }
                    } else {
                        quiet_since = None;
                    }
                }
                let mut any_arrived = false;
                let mut all_in_futex = true;
                let mut any_unfinished = false;
                for i in 0..n {
                    let s = &g.slots[i];
                    if s.finished.load(Ordering::Acquire) {
                        continue;
                    }
                    any_unfinished = true;
                    if s.arrived.load(Ordering::Acquire) != 0 {
                        any_arrived = true;
                    }
                    let tid = s.tid.load(Ordering::Acquire);
                    if tid == 0 || !tid_in_futex(tid) {
                        all_in_futex = false;
                    }
                }
                if any_arrived || !any_unfinished {
                    continue 'outer;
                }
                if all_in_futex {
                    stuck_rounds += 1;
                    if stuck_rounds >= 1000 {
                        // 200 ms of every live thread asleep in a futex wait with nobody to wake it
                        let who: Vec<String> = (0..n)
                            .filter(|i| !g.slots[*i].finished.load(Ordering::Acquire))
                            .map(|i| format!("worker {}", i))
                            .collect();
                        trace.deadlock = Some(format!("every unfinished worker ({}) is blocked on a lock", who.join(", ")));
                        break 'outer;
                    }
                } else {
                    stuck_rounds = 0;
                }
                if start.elapsed().as_millis() as u64 > watchdog_ms {
                    trace.inconclusive = Some("watchdog: no worker reached a point".into());
                    break 'outer;
                }
            }
        }
        // 3. choose
        let chosen = match &strategy {
            Strategy::Prefix(pfx) => {
                if step < pfx.len() {
                    if enabled.contains(&pfx[step]) {
                        pfx[step]
                    } else {
                        trace.inconclusive = Some(format!("replayed prefix diverged at step {} (wanted worker {}, enabled {:?})", step, pfx[step], enabled));
                        break 'outer;
                    }
                } else {
                    match current {
                        Some(c) if enabled.contains(&c) => c,
                        _ => enabled[0],
                    }
                }
            }
            Strategy::Pct { .. } => {
                if change_at.contains(&step) {
                    if let Some(c) = current {
                        prio[c] = rng.below(900); // drop below everyone
                    }
                }
                *enabled.iter().max_by_key(|i| prio[**i]).unwrap()
            }
            Strategy::Random { .. } => *rng.pick(&enabled),
        };
        if let Some(c) = current {
            if chosen != c && enabled.contains(&c) {
                trace.preemptions += 1;
            }
        }
        let at = g.slots[chosen].arrived.load(Ordering::Acquire).saturating_sub(1);
        trace.decisions.push(Decision { enabled: enabled.clone(), chosen, current, at });
        step += 1;
        // 4. release
        let s = &g.slots[chosen];
        s.arrived.store(0, Ordering::SeqCst);
        s.go.store(true, Ordering::SeqCst);
        current = Some(chosen);
        if step > 20_000 {
            trace.inconclusive = Some("more than 20000 scheduling steps".into());
            break;
        }
    }
    // let everybody run to the end (also after a deadlock verdict the threads cannot be joined)
    g.mode.store(MODE_OFF, Ordering::SeqCst);
    for s in g.slots.iter() {
        s.go.store(true, Ordering::SeqCst);
    }
    if trace.deadlock.is_none() && trace.inconclusive.is_none() && trace.spin.is_none() {
        for h in handles {
            let _ = h.join();
        }
    } else {
        // give them a moment; a truly deadlocked set of threads is leaked (the process is short-lived)
        let t0 = std::time::Instant::now();
        while t0.elapsed().as_millis() < 300 && !(0..n).all(|i| g.slots[i].finished.load(Ordering::Acquire)) {
            short_sleep(1000);
        }
        for (i, h) in handles.into_iter().enumerate() {
            if g.slots[i].finished.load(Ordering::Acquire) {
                let _ = h.join();
            }
        }
    }
    trace
}

/// Free-running stress: no baton, seeded random sleeps at the same points.
/// Returns Err(deadlock description) if every live worker is stuck in a futex
/// wait; Ok(false) if the watchdog fired (inconclusive); Ok(true) if all finished.
pub fn run_free(job: Job, seed: u64, max_sleep_us: u64, watchdog_ms: u64) -> Result<bool, String> {
    let g = global();
    let n = job.workers.len();
    g.reset_slots();
    g.free_seed.store(seed | 1, Ordering::SeqCst);
    g.free_max_us.store(max_sleep_us, Ordering::SeqCst);
    g.mode.store(MODE_FREE, Ordering::SeqCst);
    let mut handles = Vec::new();
    for (i, w) in job.workers.into_iter().enumerate() {
        let gi = g.clone();
        handles.push(std::thread::spawn(move || {
            WORKER.with(|c| c.set(Some(i)));
            TRNG.with(|t| t.set(0));
            let tid = unsafe { libc::syscall(libc::SYS_gettid) } as i32;
            gi.slots[i].tid.store(tid, Ordering::SeqCst);
            let r = std::panic::catch_unwind(std::panic::AssertUnwindSafe(|| w(gi.clone())));
            gi.slots[i].finished.store(true, Ordering::SeqCst);
            WORKER.with(|c| c.set(None));
            r.is_ok()
        }));
    }
    let start = std::time::Instant::now();
    let mut stuck = 0u32;
    let mut last_progress: u64 = 0;
    let result = loop {
        short_sleep(2000);
        if (0..n).all(|i| g.slots[i].finished.load(Ordering::Acquire)) {
            break Ok(true);
        }
        let progress: u64 = (0..n).map(|i| g.slots[i].points_passed.load(Ordering::Relaxed)).sum::<u64>() + g.clock.load(Ordering::Relaxed);
        let all_futex = (0..n).all(|i| {
            let s = &g.slots[i];
            s.finished.load(Ordering::Acquire) || {
                let tid = s.tid.load(Ordering::Acquire);
                tid != 0 && tid_in_futex(tid)
            }
        });
        if all_futex && progress == last_progress {
            stuck += 1;
            if stuck >= 500 {
                // one second without a single event while every live thread sleeps on a lock
                break Err("every unfinished worker is blocked on a lock and nothing has moved for 1 s".to_string());
            }
        } else {
            stuck = 0;
        }
        last_progress = progress;
        if start.elapsed().as_millis() as u64 > watchdog_ms {
            // still not finished after the (generous) limit: is somebody spinning while nothing moves?
            let prog = |g: &Inner| -> u64 { (0..n).map(|i| g.slots[i].points_passed.load(Ordering::Relaxed)).sum::<u64>() + g.clock.load(Ordering::Relaxed) };
            let p0 = prog(&g);
            let cpu0: Vec<u64> = (0..n).map(|i| thread_cpu_ms(g.slots[i].tid.load(Ordering::Acquire))).collect();
            let t2 = std::time::Instant::now();
            while t2.elapsed().as_millis() < 3_000 {
                short_sleep(20_000);
            }
            let since = t2.elapsed().as_millis() as u64;
            let spinner = (0..n).find(|i| !g.slots[*i].finished.load(Ordering::Acquire) && thread_cpu_ms(g.slots[*i].tid.load(Ordering::Acquire)).saturating_sub(cpu0[*i]) * 3 >= since * 2);
            if let (Some(i), true) = (spinner, prog(&g) == p0) {
                break Err(format!("spin: worker {} has been on the CPU for the last {} ms after {} while no worker passed a yield point (free-running mode, {} ms after the start)", i, since, point_name(g.slots[i].last_point.load(Ordering::Acquire)), start.elapsed().as_millis()));
            }
            break Ok(false);
        }
    };
    g.mode.store(MODE_OFF, Ordering::SeqCst);
    g.free_max_us.store(0, Ordering::SeqCst);
    if let Ok(true) = result {
        for h in handles {
            let _ = h.join();
        }
    }
    result
}

pub fn set_hook_mask(mask: u32) {
    global().hook_mask.store(mask, Ordering::SeqCst);
}
