//! Helpers shared by the C14 corpus programs: set up a populated database,
//! then (after the program let its transaction end) rewrite enough data that
//! the pages the transaction exposed are reused with different content, and
//! grow the file twice so that the memory map is replaced; replaced maps are
//! turned into inaccessible address ranges (verif-hooks quarantine), so a
//! stale pointer faults instead of silently reading whatever is mapped there.
use jammdb::{OpenOptions, DB};

pub struct Guard(pub std::path::PathBuf);
impl Drop for Guard {
    fn drop(&mut self) {
        let _ = std::fs::remove_file(&self.0);
    }
}

pub fn val(tag: u64, len: usize) -> Vec<u8> {
    let t = tag.to_le_bytes();
    (0..len).map(|i| t[i % 8] ^ (i as u8).wrapping_mul(7)).collect()
}

pub fn setup() -> (DB, Guard) {
    let dir = std::env::var("C14_SCRATCH").unwrap_or_else(|_| "/dev/shm".to_string());
    let path = std::path::PathBuf::from(dir).join(format!("c14-{}-{}.db", std::process::id(), std::env::args().next().map(|a| a.replace('/', "_")).unwrap_or_default()));
    let _ = std::fs::remove_file(&path);
    jammdb::verif_hooks::set_quarantine(true);
    let db = OpenOptions::new().pagesize(1024).num_pages(4).open(&path).expect("open");
    {
        let tx = db.tx(true).expect("tx");
        {
            let b = tx.create_bucket("data").expect("bucket");
            for i in 0..200u64 {
                b.put(format!("key-{:03}", i), val(i, 100)).expect("put");
            }
            let n = b.create_bucket("nested").expect("nested");
            for i in 0..20u64 {
                n.put(format!("n-{:02}", i), val(1000 + i, 60)).expect("put");
            }
            b.create_bucket("other-nested").expect("nested");
        }
        tx.commit().expect("commit");
    }
    (db, Guard(path))
}

/// Rewrite everything several times (page reuse), then grow the file twice (remap).
/// `read` re-reads the escaped value; it must keep returning `expected`.
pub fn churn_and_check(db: &DB, mut read: impl FnMut() -> Vec<u8>, expected: &[u8]) {
    let check = |stage: &str, got: Vec<u8>| {
        if got != expected {
            eprintln!("ESCAPED-VALUE-CHANGED after {}: {} bytes, first differing at {:?}", stage, got.len(), got.iter().zip(expected.iter()).position(|(a, b)| a != b));
            std::process::exit(3);
        }
    };
    check("nothing", read());
    for round in 0..6u64 {
        let tx = db.tx(true).expect("tx");
        {
            let b = tx.get_bucket("data").expect("bucket");
            for i in 0..200u64 {
                b.put(format!("key-{:03}", i), val(7777 + round * 1000 + i, 100)).expect("put");
            }
            if round == 2 {
                b.delete_bucket("nested").expect("delete nested");
            }
            if round == 3 {
                let n = b.create_bucket("nested").expect("nested");
                for i in 0..20u64 {
                    n.put(format!("n-{:02}", i), val(5000 + i, 60)).expect("put");
                }
            }
        }
        tx.commit().expect("commit");
        jammdb::verif_hooks::sweep_dead_maps();
        check("page reuse", read());
    }
    for step in 0..2u64 {
        let tx = db.tx(true).expect("tx");
        {
            let b = tx.get_or_create_bucket("big").expect("bucket");
            b.put(format!("blob-{}", step), vec![step as u8; 9 << 20]).expect("put");
        }
        tx.commit().expect("commit");
        let sealed = jammdb::verif_hooks::sweep_dead_maps();
        eprintln!("grow step {}: {} dead map(s) sealed", step, sealed);
        check("file growth and remap", read());
    }
    println!("C14-PROBE-OK");
}
