#!/usr/bin/env python3
"""legacy.py <in.db> <out.db> <pagesize>: rewrite both header records of a jammdb
file into the legacy (<= 0.10) format: same nine fields, followed by the
SHA3-256 of their big-endian encodings (instead of the 8-byte FNV-1a hash)."""
import hashlib, struct, sys

def convert(data: bytearray, ps: int) -> bytearray:
    for slot in (0, 1):
        base = slot * ps + 32
        meta_page, magic, version = struct.unpack_from("<III", data, base)
        pagesize, root_page, next_int, num_pages, freelist_page, tx_id = struct.unpack_from("<6Q", data, base + 16)
        be = struct.pack(">III", meta_page, magic, version) + struct.pack(">6Q", pagesize, root_page, next_int, num_pages, freelist_page, tx_id)
        data[base + 64: base + 96] = hashlib.sha3_256(be).digest()
    return data

if __name__ == "__main__":
    src, dst, ps = sys.argv[1], sys.argv[2], int(sys.argv[3])
    d = bytearray(open(src, "rb").read())
    open(dst, "wb").write(convert(d, ps))
