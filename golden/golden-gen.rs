// Produces the golden database files of /verif/golden from the PINNED jammdb tree
// (f5c2214), using only its public API, plus a JSON manifest of the logical contents.
use jammdb::{Bucket, Data, OpenOptions};
use serde_json::{json, Map, Value};

fn hex(b: &[u8]) -> String { b.iter().map(|x| format!("{:02x}", x)).collect() }

fn val(tag: u64, len: usize) -> Vec<u8> {
    let t = tag.to_le_bytes();
    (0..len).map(|i| t[i % 8] ^ ((i / 8) as u8).wrapping_mul(31)).collect()
}

fn dump(b: &Bucket) -> Value {
    let mut m = Map::new();
    let mut items: Vec<(Vec<u8>, Option<Vec<u8>>)> = Vec::new();
    for d in b.cursor() {
        match d {
            Data::KeyValue(kv) => items.push((kv.key().to_vec(), Some(kv.value().to_vec()))),
            Data::Bucket(n) => items.push((n.name().to_vec(), None)),
        }
    }
    for (k, v) in items {
        match v {
            Some(v) => { m.insert(hex(&k), json!({"v": hex(&v)})); }
            None => { let nb = b.get_bucket(k.clone()).unwrap(); m.insert(hex(&k), json!({"b": dump(&nb)})); }
        }
    }
    json!({"next_int": b.next_int(), "entries": Value::Object(m)})
}

fn main() {
    let out = std::env::args().nth(1).expect("output dir");
    for (ps, np) in [(1024u64, 320usize), (4096, 96), (5000, 80), (16384, 56)] {
        let path = format!("{}/golden-{}.db", out, ps);
        let _ = std::fs::remove_file(&path);
        let p = ps as usize;
        {
            let db = OpenOptions::new().pagesize(ps).num_pages(np).open(&path).unwrap();
            // tx1: structure
            {
                let tx = db.tx(true).unwrap();
                let a = tx.create_bucket("alpha").unwrap();
                for i in 0..60u64 { a.put(format!("key{:04}", i), val(100 + i, 100 + (i as usize * 7) % 200)).unwrap(); }
                let inner = a.create_bucket("inner").unwrap();
                for i in 0..10u64 { inner.put(format!("in{:02}", i), val(200 + i, 40)).unwrap(); }
                let deep = inner.create_bucket("deep").unwrap();
                for i in 0..3u64 { deep.put([i as u8; 4], val(300 + i, 12)).unwrap(); }
                let blobs = tx.create_bucket("blobs").unwrap();
                blobs.put("three-pages", val(400, 3 * p)).unwrap();
                blobs.put("ten-pages", val(401, 10 * p + 17)).unwrap();
                blobs.put("", val(402, 5)).unwrap();
                blobs.put("empty-value", Vec::<u8>::new()).unwrap();
                let gone = tx.create_bucket("to-delete").unwrap();
                for i in 0..12u64 { gone.put(format!("g{:02}", i), val(500 + i, p / 3)).unwrap(); }
                tx.create_bucket("empty-bucket").unwrap();
                tx.commit().unwrap();
            }
            // tx2: overwrite (frees pages)
            {
                let tx = db.tx(true).unwrap();
                let a = tx.get_bucket("alpha").unwrap();
                for i in (0..60u64).step_by(3) { a.put(format!("key{:04}", i), val(600 + i, 150)).unwrap(); }
                let long_key = vec![b'L'; p + p / 2];
                a.put(long_key, val(650, 33)).unwrap();
                tx.commit().unwrap();
            }
            // tx3: delete a bucket and a few keys -> non-empty free list at close
            {
                let tx = db.tx(true).unwrap();
                tx.delete_bucket("to-delete").unwrap();
                let a = tx.get_bucket("alpha").unwrap();
                for i in [5u64, 17, 29] { a.delete(format!("key{:04}", i)).unwrap(); }
                tx.commit().unwrap();
            }
            db.check().unwrap();
        }
        // manifest via a fresh handle
        let db = OpenOptions::new().pagesize(ps).num_pages(np).open(&path).unwrap();
        let tx = db.tx(false).unwrap();
        let mut root = Map::new();
        let names: Vec<Vec<u8>> = tx.buckets().map(|(n, _)| n.name().to_vec()).collect();
        for n in names { let b = tx.get_bucket(n.clone()).unwrap(); root.insert(hex(&n), json!({"b": dump(&b)})); }
        let manifest = json!({"pagesize": ps, "num_pages_at_creation": np, "produced_by": "pjtatlow/jammdb f5c2214 (public API only)", "contents": {"entries": Value::Object(root)}});
        std::fs::write(format!("{}/golden-{}.manifest.json", out, ps), serde_json::to_vec_pretty(&manifest).unwrap()).unwrap();
        println!("{} ok", path);
    }
}
