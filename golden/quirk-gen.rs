// Produces the golden database files of /verif/golden from the PINNED jammdb tree
// (f5c2214), using only its public API, plus a JSON manifest of the logical contents.
use jammdb::{Bucket, Data, OpenOptions};
use serde_json::{json, Map, Value};

fn hex(b: &[u8]) -> String { b.iter().map(|x| format!("{:02x}", x)).collect() }

fn val(tag: u64, len: usize) -> Vec<u8> {
    let t = tag.to_le_bytes();
    (0..len).map(|i| t[i % 8] ^ ((i / 8) as u8).wrapping_mul(31)).collect()
}

fn dump(b: &Bucket) -> Value {
    let mut m = Map::new();
    let mut items: Vec<(Vec<u8>, Option<Vec<u8>>)> = Vec::new();
    for d in b.cursor() {
        match d {
            Data::KeyValue(kv) => items.push((kv.key().to_vec(), Some(kv.value().to_vec()))),
            Data::Bucket(n) => items.push((n.name().to_vec(), None)),
        }
    }
    for (k, v) in items {
        match v {
            Some(v) => { m.insert(hex(&k), json!({"v": hex(&v)})); }
            None => { let nb = b.get_bucket(k.clone()).unwrap(); m.insert(hex(&k), json!({"b": dump(&nb)})); }
        }
    }
    json!({"next_int": b.next_int(), "entries": Value::Object(m)})
}


fn main() {
    let out = std::env::args().nth(1).expect("output dir");
    let ps = 1024u64;
    let path = format!("{}/quirk-dupfree-{}.db", out, ps);
    let _ = std::fs::remove_file(&path);
    {
        let db = OpenOptions::new().pagesize(ps).num_pages(96).open(&path).unwrap();
        {
            let tx = db.tx(true).unwrap();
            let keep = tx.create_bucket("keep").unwrap();
            for i in 0..20u64 { keep.put(format!("k{:03}", i), val(10 + i, 60)).unwrap(); }
            let outer = tx.create_bucket("outer").unwrap();
            for i in 0..30u64 { outer.put(format!("o{:03}", i), val(100 + i, 200)).unwrap(); }
            let inner = outer.create_bucket("inner").unwrap();
            for i in 0..40u64 { inner.put(format!("i{:03}", i), val(200 + i, 300)).unwrap(); }
            let deep = inner.create_bucket("deep").unwrap();
            for i in 0..10u64 { deep.put(format!("d{:03}", i), val(300 + i, 500)).unwrap(); }
            tx.commit().unwrap();
        }
        {
            // the pinned release frees the pages of the nested bucket twice here (its known quirk):
            // the free list it writes lists those pages twice
            let tx = db.tx(true).unwrap();
            let outer = tx.get_bucket("outer").unwrap();
            outer.delete_bucket("inner").unwrap();
            drop(outer);
            tx.delete_bucket("outer").unwrap();
            let keep = tx.get_bucket("keep").unwrap();
            keep.put("after", val(999, 20)).unwrap();
            tx.commit().unwrap();
        }
        let tx = db.tx(false).unwrap();
        let mut m = Map::new();
        for (name, b) in tx.buckets() {
            m.insert(hex(name.name()), json!({"b": dump(&b)}));
        }
        let manifest = json!({"pagesize": ps, "num_pages_at_creation": 96, "produced_by": "pinned tree f5c2214: nested bucket deleted, then its ancestor, in one transaction (free list with repeated ids)", "contents": {"next_int": 0, "entries": Value::Object(m)}});
        std::fs::write(format!("{}/quirk-dupfree-{}.manifest.json", out, ps), serde_json::to_vec(&manifest).unwrap()).unwrap();
    }
}
