#!/usr/bin/env python3
"""mutest.py [--n N] [--seed S] [--files a.rs,b.rs] [--checks C01,C05,...] [--out FILE]

Systematic mutation testing of the CHECKS (not of jammdb): simple syntactic mutation operators are
applied to /repo's sources in a scratch worktree (never in /repo itself); a mutant that still compiles
and still passes the pinned 72-test suite is handed to the quick tier of the history-driven checks,
run from a scratch copy of the harness that points at the scratch worktree.  Mutants that survive
everything are listed for manual triage (equivalent mutant, or a blind spot of the checks).

Scratch: /tmp/mt-repo (git worktree of /repo), /tmp/mt-h (copy of /verif/harness), /tmp/mt-target,
/tmp/mt-out.  Nothing here is registered in MANIFEST.json; it is a tool for strengthening the checks.
"""
import json, os, random, re, shutil, subprocess, sys, time, glob

REPO = "/repo"
WT = "/tmp/mt-repo"
H = "/tmp/mt-h"
TARGET = "/tmp/mt-target"
OUT = "/tmp/mt-out"
ENV = dict(os.environ, CARGO_NET_OFFLINE="true")


def sh(cmd, cwd=None, timeout=3600, env=None):
    p = subprocess.run(cmd, cwd=cwd, shell=isinstance(cmd, str), stdout=subprocess.PIPE, stderr=subprocess.STDOUT, text=True, timeout=timeout, env=env or ENV)
    return p.returncode, p.stdout


def setup():
    os.makedirs(OUT, exist_ok=True)
    if not os.path.isdir(WT):
        sh(["git", "-C", REPO, "worktree", "add", "--detach", WT, "HEAD"])
    sh("git checkout -- .", WT)
    shutil.rmtree(H, ignore_errors=True)
    shutil.copytree("/verif/harness", H, ignore=shutil.ignore_patterns("target"))
    p = os.path.join(H, "Cargo.toml")
    s = open(p).read().replace('path = "/repo"', 'path = "%s"' % WT)
    open(p, "w").write(s)


OPS = [
    # (name, regex, replacement)
    ("lt->le", r" < ", " <= "), ("le->lt", r" <= ", " < "), ("gt->ge", r" > ", " >= "), ("ge->gt", r" >= ", " > "),
    ("eq->ne", r" == ", " != "), ("ne->eq", r" != ", " == "),
    ("and->or", r" && ", " || "), ("or->and", r" \|\| ", " && "),
    ("plus1->plus0", r" \+ 1\b", " + 0"), ("minus1->minus0", r" - 1\b", " - 0"), ("plus1->plus2", r" \+ 1\b", " + 2"),
    ("plus->minus", r" \+ ", " - "), ("minus->plus", r" - ", " + "),
    ("not-removed", r"if !", "if "), ("true->false", r"\btrue\b", "false"), ("false->true", r"\bfalse\b", "true"),
    ("zero->one", r"== 0\b", "== 1"), ("stmt-deleted", None, None),
]


def candidates(files):
    out = []
    for f in files:
        path = os.path.join(WT, "src", f)
        lines = open(path).read().split("\n")
        in_test = False
        depth_fn = 0
        for i, l in enumerate(lines):
            st = l.strip()
            if st.startswith("#[cfg(test)]"):
                in_test = True
            if in_test:
                continue
            if not st or st.startswith("//") or st.startswith("#[") or "verif_at!" in l or "verif" in l or "assert" in l or st.startswith("use ") or st.startswith("pub use"):
                continue
            if "fn " in l and ("<" in l or "->" in l):
                continue  # signatures: generics / arrows
            for name, rx, rep in OPS:
                if name == "stmt-deleted":
                    # a plain call / assignment statement (not a let, not a return, not a closing brace)
                    if st.endswith(";") and not st.startswith(("let ", "return", "break", "continue", "}", "pub ", "const ", "static ", "type ")) and "?" not in st[-3:] and ("(" in st or " = " in st) and "=>" not in st:
                        out.append((f, i, name, None))
                    continue
                for m in re.finditer(rx, l):
                    # skip generics-like contexts and lifetimes
                    seg = l[max(0, m.start() - 12):m.end() + 12]
                    if "'" in seg and name in ("lt->le", "gt->ge"):
                        continue
                    if "->" in l[m.start() - 1:m.end() + 1]:
                        continue
                    out.append((f, i, name, m.start()))
    return out


def apply_mutant(c):
    f, i, name, pos = c
    path = os.path.join(WT, "src", f)
    lines = open(path).read().split("\n")
    old = lines[i]
    if name == "stmt-deleted":
        lines[i] = re.sub(r"\S.*$", "// mutest: statement deleted", old, count=1) if False else (old[:len(old) - len(old.lstrip())] + "{} // mutest: deleted: " + old.strip())
    else:
        rx, rep = next((r, p) for n, r, p in OPS if n == name)
        m = re.compile(rx).match(old, pos)
        if not m:
            return None
        lines[i] = old[:pos] + rep + old[m.end():]
    open(path, "w").write("\n".join(lines))
    return old, lines[i]


def run_checks(checks, seed):
    """build the scratch harness and run the quick tier of each check with 16 shards; returns {check: [sigs]}"""
    rc, out = sh(["cargo", "build", "--offline", "--profile", "verif"], H, env=dict(ENV, CARGO_TARGET_DIR=TARGET))
    if rc != 0:
        return {"build": ["harness build failed: " + out[-300:]]}
    res = {}
    vh = os.path.join(TARGET, "verif", "vh")
    for c in checks:
        for f in glob.glob(os.path.join(OUT, "r-*.json")):
            os.remove(f)
        procs = []
        env = dict(ENV, LD_PRELOAD="/verif/shim/ioshim.so", VERIF_DBPATH="/dev/shm/vh-", VERIF_STALL_S="60")
        for s in range(16):
            cmd = ["timeout", "600", vh, c, "--tier", "quick", "--seed", str(seed), "--shard", str(s), "--nshards", "16", "--out", os.path.join(OUT, "r-%d.json" % s), "--replay-dir", os.path.join(OUT, "replays"), "--set", "golden=/verif/out/golden"]
            procs.append(subprocess.Popen(cmd, cwd=OUT, env=env, stdout=subprocess.DEVNULL, stderr=subprocess.DEVNULL))
        died = 0
        for p in procs:
            if p.wait() not in (0,):
                died += 1
        sigs = set()
        for f in glob.glob(os.path.join(OUT, "r-*.json")):
            try:
                d = json.load(open(f))
                for v in d["violations"]:
                    sigs.add(v["sig"])
            except Exception:
                pass
        if died:
            sigs.add("worker-died x%d" % died)
        res[c] = sorted(sigs)
        if sigs:
            break  # killed: no need to run the remaining checks
    return res


def main():
    n, seed = 40, 1
    files = ["node.rs", "bucket.rs", "freelist.rs", "tx.rs", "cursor.rs", "page_node.rs", "db.rs", "meta.rs", "page.rs"]
    checks = ["C01", "C05", "C07", "C08", "C03", "C06", "C10", "C11", "C02", "C12", "C15", "C16"]
    outp = os.path.join(OUT, "mutest.jsonl")
    a = sys.argv[1:]
    while a:
        x = a.pop(0)
        if x == "--n": n = int(a.pop(0))
        elif x == "--seed": seed = int(a.pop(0))
        elif x == "--files": files = a.pop(0).split(",")
        elif x == "--checks": checks = a.pop(0).split(",")
        elif x == "--out": outp = a.pop(0)
    setup()
    cands = candidates(files)
    rnd = random.Random(seed)
    rnd.shuffle(cands)
    print("%d candidate mutants in %s; sampling until %d survive the crate's own suite" % (len(cands), files, n), flush=True)
    survived_suite = 0
    tried = 0
    for c in cands:
        if survived_suite >= n:
            break
        tried += 1
        sh("git checkout -- .", WT)
        r = apply_mutant(c)
        if not r:
            continue
        rec = {"file": c[0], "line": c[1] + 1, "op": c[2], "old": r[0].strip(), "new": r[1].strip()}
        t0 = time.time()
        rc, out = sh("cargo build --offline --features verif-hooks 2>&1 | tail -3", WT, env=dict(ENV, CARGO_TARGET_DIR="/tmp/mt-repo-target"))
        if "error" in out.lower().replace("0 errors", ""):
            rec["status"] = "does-not-compile"
            open(outp, "a").write(json.dumps(rec) + "\n")
            continue
        rc, out = sh("timeout 600 cargo test --workspace --no-fail-fast --offline 2>&1 | grep -E '^test result|panicked' | head -20", WT, env=dict(ENV, CARGO_TARGET_DIR="/tmp/mt-repo-target"))
        res = re.findall(r"test result: (\w+)\. (\d+) passed; (\d+) failed", out)
        passed = sum(int(x[1]) for x in res)
        failed = sum(int(x[2]) for x in res)
        if failed > 0 or passed < 93:
            rec["status"] = "killed-by-crate-suite"
            rec["suite"] = [passed, failed]
            open(outp, "a").write(json.dumps(rec) + "\n")
            print("[%d] %s:%d %s  killed by the crate's suite (%d/%d)" % (tried, c[0], c[1] + 1, c[2], passed, failed), flush=True)
            continue
        survived_suite += 1
        res = run_checks(checks, seed)
        killed_by = [k for k, v in res.items() if v]
        rec["status"] = "killed-by-checks" if killed_by else "SURVIVED"
        rec["checks"] = res
        rec["wall_s"] = round(time.time() - t0)
        open(outp, "a").write(json.dumps(rec) + "\n")
        print("[%d] %s:%d %s  `%s` -> `%s`  %s %s" % (tried, c[0], c[1] + 1, c[2], rec["old"][:60], rec["new"][:60], rec["status"], {k: v[:2] for k, v in res.items() if v}), flush=True)
    sh("git checkout -- .", WT)


if __name__ == "__main__":
    main()
