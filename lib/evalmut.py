#!/usr/bin/env python3
"""evalmut.py <ID> <a|b> [--checks C01,C05 ...] [--tier quick|thorough] [--skip-confirm] [--confirm-only]

1. confirms a sub-agent's mutation in ITS scratch worktree (/tmp/mut-<ID>): the patch applies, the
   crate builds with and without the hooks feature, the pinned test suite passes with it, the
   demonstration fails with it and passes without it;
2. applies the patch to /repo, runs the named checks (default: the property's own check), reverts;
3. stores everything under /verif/seeded/<ID>-<a|b>/ (patch.diff, demo, NOTES.md, meta.json).
"""
import json, os, re, shutil, subprocess, sys, time

ROOT = "/verif"


def sh(cmd, cwd, timeout=3600, env=None):
    e = dict(os.environ, CARGO_NET_OFFLINE="true")
    if env:
        e.update(env)
    p = subprocess.run(cmd, cwd=cwd, shell=isinstance(cmd, str), stdout=subprocess.PIPE, stderr=subprocess.STDOUT, text=True, timeout=timeout, env=e)
    return p.returncode, p.stdout


def main():
    pid, which = sys.argv[1], sys.argv[2]
    checks = [pid]
    tier = "quick"
    skip_confirm = False
    confirm_only = False
    args = sys.argv[3:]
    while args:
        a = args.pop(0)
        if a == "--checks":
            checks = args.pop(0).split(",")
        elif a == "--tier":
            tier = args.pop(0)
        elif a == "--skip-confirm":
            skip_confirm = True
        elif a == "--confirm-only":
            confirm_only = True
    wt = os.environ.get("MUT_WT_PREFIX", "/tmp/mut-") + pid
    src = os.path.join(wt, "MUTATION", which)
    patch = os.path.join(src, "patch.diff")
    dst = os.path.join(ROOT, "seeded", "%s-%s" % (pid, which))
    os.makedirs(dst, exist_ok=True)
    meta = {"property": pid, "variant": which, "source": "independent sub-agent given only the property text and a scratch worktree", "ran": []}
    if os.path.exists(os.path.join(dst, "meta.json")):
        try:
            old = json.load(open(os.path.join(dst, "meta.json")))
            meta["confirmation"] = old.get("confirmation")
            meta["needs"] = old.get("needs")
        except Exception:
            pass
    if os.path.isdir(src):
        for f in os.listdir(src):
            if os.path.isfile(os.path.join(src, f)):
                shutil.copy(os.path.join(src, f), os.path.join(dst, f))
    patch_local = os.path.join(dst, "patch.diff")

    if not skip_confirm and os.path.isdir(wt):
        conf = {}
        sh("git checkout -- . && rm -f tests/demo_mut.rs", wt)
        rc, out = sh(["git", "apply", "--check", patch], wt)
        conf["patch_applies"] = rc == 0
        sh(["git", "apply", patch], wt)
        rc, out = sh("cargo build --offline --features verif-hooks 2>&1 | tail -3", wt)
        conf["builds_with_hooks"] = "error" not in out.lower().replace("0 errors", "")
        rc, out = sh("cargo test --workspace --no-fail-fast --offline 2>&1 | grep -E '^test result|FAILED|panicked' | head -20", wt)
        res = re.findall(r"test result: (\w+)\. (\d+) passed; (\d+) failed", out)
        conf["suite_with_patch"] = {"passed": sum(int(x[1]) for x in res), "failed": sum(int(x[2]) for x in res)}
        demo = os.path.join(src, "demo.rs")
        if os.path.exists(demo):
            shutil.copy(demo, os.path.join(wt, "tests", "demo_mut.rs"))
            rc1, out1 = sh("cargo test --offline --test demo_mut 2>&1 | tail -25", wt, timeout=1800)
            r1 = re.findall(r"test result: (\w+)\. (\d+) passed; (\d+) failed", out1)
            conf["demo_with_patch"] = {"fails": bool(r1 and int(r1[-1][2]) > 0) or ("test result" not in out1), "tail": out1[-600:]}
            sh("git checkout -- .", wt)
            rc2, out2 = sh("cargo test --offline --test demo_mut 2>&1 | tail -8", wt, timeout=1800)
            r2 = re.findall(r"test result: (\w+)\. (\d+) passed; (\d+) failed", out2)
            conf["demo_on_clean_tree"] = {"passes": bool(r2 and int(r2[-1][2]) == 0 and int(r2[-1][1]) > 0), "tail": out2[-300:]}
            os.remove(os.path.join(wt, "tests", "demo_mut.rs"))
        sh("git checkout -- .", wt)
        meta["confirmation"] = conf
        print("confirmation:", json.dumps({k: (v if not isinstance(v, dict) else {kk: vv for kk, vv in v.items() if kk != "tail"}) for k, v in conf.items()}))

    if confirm_only:
        mp = os.path.join(dst, "meta.json")
        if os.path.exists(mp):
            try:
                meta["ran"] = json.load(open(mp)).get("ran", [])
            except Exception:
                pass
        json.dump(meta, open(mp, "w"), indent=1)
        return
    # ---- run the checks against /repo with the patch applied
    rc, out = sh(["git", "status", "--porcelain"], "/repo")
    if out.strip():
        print("refusing: /repo working tree is not clean:\n" + out)
        sys.exit(2)
    rc, out = sh(["git", "apply", patch_local], "/repo")
    if rc != 0:
        print("patch does not apply to /repo:", out)
        meta["ran"].append({"error": "patch does not apply to /repo HEAD"})
        json.dump(meta, open(os.path.join(dst, "meta.json"), "w"), indent=1)
        sys.exit(2)
    saved_ev = {}
    for c in checks:
        ep = os.path.join(ROOT, "evidence", c + ".json")
        if os.path.exists(ep):
            saved_ev[ep] = open(ep, "rb").read()
    try:
        for c in checks:
            t0 = time.time()
            rc, out = sh(["./check", c, tier], ROOT, timeout=4 * 3600)
            sigs = re.findall(r"signature: (.*)", out)
            viol = [l for l in out.splitlines() if l.startswith("VIOLATION")]
            rec = {"check": c, "tier": tier, "exit": rc, "violation_lines": len(viol), "signatures": sigs[:12], "wall_s": round(time.time() - t0, 1),
                   "detected": rc == 1 and len(viol) > 0}
            if rc not in (0, 1):
                rec["tail"] = out[-800:]
            meta["ran"].append(rec)
            print("%s %s with %s-%s applied: exit %d, %d VIOLATION line(s) %s" % (c, tier, pid, which, rc, len(viol), sigs[:4]))
    finally:
        # evidence files must describe the unchanged tree, not a run against a seeded change
        for ep, data in saved_ev.items():
            open(ep, "wb").write(data)
        sh(["git", "checkout", "--", "."], "/repo")
        rc, out = sh(["git", "status", "--porcelain"], "/repo")
        if out.strip():
            print("WARNING: /repo not clean after revert:", out)
    prev = []
    mp = os.path.join(dst, "meta.json")
    if os.path.exists(mp):
        try:
            prev = json.load(open(mp)).get("ran", [])
        except Exception:
            prev = []
    meta["ran"] = prev + meta["ran"]
    json.dump(meta, open(mp, "w"), indent=1)


if __name__ == "__main__":
    main()
