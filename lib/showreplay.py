#!/usr/bin/env python3
"""pretty-print a replay file that contains a history"""
import json, sys
d = json.load(open(sys.argv[1]))
print("SIG:", d.get("signature")); print("DETAIL:", d.get("detail"))
c = d["case"]
h = c["history"]
print("pagesize", h["pagesize"], "origin", h.get("origin"), "at", c.get("at_tx"), c.get("at_op"))
def k(x):
    b = bytes(x["pre"]) + b"." * x.get("fill", 0) + bytes(x.get("post", []))
    return (b[:10] + b"..(%d)" % len(b)) if len(b) > 16 else b
def show(a):
    if isinstance(a, dict):
        out = {}
        for kk, v in a.items():
            if kk == "k": out[kk] = k(v)
            elif kk in ("lo", "hi") and isinstance(v, dict): out[kk] = {t: k(x) for t, x in v.items()}
            elif kk == "v": out[kk] = "%dB#%d" % (v["len"], v["tag"] % 100000)
            elif kk in ("how", "vhow"): 
                if v != "Slice": out[kk] = v
            else: out[kk] = v
        return out
    return a
for ti, t in enumerate(h["txs"]):
    print("TX", ti, t["end"], "reopen" if t.get("reopen") else "")
    for oi, op in enumerate(t["ops"]):
        if isinstance(op, dict):
            (name, args), = op.items()
        else:
            name, args = op, {}
        print("   %3d %-14s %s" % (oi, name, show(args)))
