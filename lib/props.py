"""Per-property configuration of the check driver: how to run, what counts as
non-trivial (the 'rule' text of the evidence), coverage floors, level."""
import os
import sys
sys.path.insert(0, os.path.dirname(os.path.abspath(__file__)))
import c14 as c14mod

NSHARDS = min(16, os.cpu_count() or 4)


def generic(profile="verif", extra_sets=(), timeout_quick=1500, timeout_thorough=4 * 3600, nshards=None, thorough_profiles=(), env=None, pre=None, sanitizers=(), quick_profiles=()):
    def run(ctx):
        ctx["build"](profile)
        if pre:
            pre(ctx)
        n = nshards or NSHARDS
        sets = list(extra_sets)
        if ctx["replay"]:
            # a replay runs the single recorded case in one worker
            import subprocess, json
            outp = os.path.join(ctx["rundir"], "replay.json")
            cmd = [ctx["vh_path"](profile), ctx["pid"], "--tier", ctx["tier"], "--seed", str(ctx["seed"]),
                   "--out", outp, "--replay", os.path.abspath(ctx["replay"]), "--replay-dir", os.path.join(ctx["out"], "replays")]
            for kv in sets:
                cmd += ["--set", kv]
            p = subprocess.run(cmd, cwd=ctx["root"], env=dict(os.environ, **(env or {})))
            if p.returncode == 0 and os.path.exists(outp):
                return [json.load(open(outp))], [], 0
            return [], [{"shard": 0, "rc": p.returncode, "current": None, "log_tail": ""}], 0
        to = timeout_thorough if ctx["tier"] == "thorough" else timeout_quick
        shards, crashes, timeouts = ctx["run_shards"](ctx["pid"], ctx["tier"], ctx["seed"], ctx["rundir"], n,
                                                      ctx["vh_path"](profile), sets, env, to)
        if ctx["tier"] == "quick":
            # a second, smaller pass with debug assertions OFF: a debug_assert that stops a commit in the
            # default build hides what the same code does to the file in a release build
            for prof in quick_profiles:
                ctx["build"](prof)
                qenv = dict(env or {})
                qenv["VERIF_SCALE"] = "40"
                s2, c2, t2 = ctx["run_shards"](ctx["pid"], ctx["tier"], ctx["seed"] + 7919, ctx["rundir"], n,
                                               ctx["vh_path"](prof), sets + ["build=" + prof], qenv, to, tag="-" + prof)
                for s in s2:
                    s.setdefault("counters", {})["release_profile_worker_runs"] = 1
                shards += s2
                crashes += c2
                timeouts += t2
        if ctx["tier"] == "thorough":
            for prof in thorough_profiles:
                ctx["build"](prof)
                s2, c2, t2 = ctx["run_shards"](ctx["pid"], ctx["tier"], ctx["seed"] + 7919, ctx["rundir"], n,
                                               ctx["vh_path"](prof), sets + ["build=" + prof], env, to, tag="-" + prof)
                shards += s2
                crashes += c2
                timeouts += t2
            for kind in sanitizers:
                binary = ctx["build_sanitizer"](kind)
                if not binary:
                    continue
                senv = dict(env or {})
                senv["VERIF_SCALE"] = "25"
                ssets = list(sets) + ["build=" + kind]
                if kind == "asan":
                    # (allocation-heavy oracles: recording a deep stack for every malloc/free costs a factor of ten)
                    senv["ASAN_OPTIONS"] = "detect_leaks=0:halt_on_error=1:abort_on_error=1:malloc_context_size=2"
                    if "LD_PRELOAD" in senv:
                        continue  # the I/O shim and the ASan runtime both want to be first
                else:
                    senv["TSAN_OPTIONS"] = "halt_on_error=0:exitcode=66:second_deadlock_stack=1"
                    senv.pop("LD_PRELOAD", None)  # the uninstrumented shim stays out of the ThreadSanitizer pass
                    ssets.append("tsan=1")
                s2, c2, t2 = ctx["run_shards"](ctx["pid"], ctx["tier"], ctx["seed"] + 104729, ctx["rundir"], n, binary, ssets, senv, to, tag="-" + kind)
                for s in s2:
                    s.setdefault("counters", {})["%s_worker_runs" % kind] = 1
                shards += s2
                crashes += c2
                timeouts += t2
        return shards, crashes, timeouts
    return run


ROOT = os.path.dirname(os.path.dirname(os.path.abspath(__file__)))
SHIM = os.path.join(ROOT, "shim", "ioshim.so")
SHIM_ENV = {"LD_PRELOAD": SHIM, "VERIF_DBPATH": "/dev/shm/vh-"}


def build_shim(ctx):
    import subprocess, sys
    src = os.path.join(ROOT, "shim", "ioshim.c")
    if (not os.path.exists(SHIM)) or os.path.getmtime(SHIM) < os.path.getmtime(src):
        p = subprocess.run(["gcc", "-O2", "-fPIC", "-shared", "-o", SHIM, src, "-ldl", "-lpthread"])
        if p.returncode != 0:
            ctx["log"]("HARNESS-ERROR: cannot build the I/O shim")
            sys.exit(2)


def unpack_golden(ctx):
    """decompress /verif/golden into out/golden and derive the legacy-header variants"""
    import gzip, hashlib, subprocess, sys
    src = os.path.join(ROOT, "golden")
    dst = os.path.join(ROOT, "out", "golden")
    os.makedirs(dst, exist_ok=True)
    sums = {}
    for line in open(os.path.join(src, "SHA256SUMS")):
        h, name = line.split()
        sums[name] = h
    for f in sorted(os.listdir(src)):
        if f.endswith(".gz"):
            data = gzip.open(os.path.join(src, f), "rb").read()
            name = f[:-3]
            if name in sums and hashlib.sha256(data).hexdigest() != sums[name]:
                ctx["log"]("HARNESS-ERROR: golden file %s does not match SHA256SUMS" % name)
                sys.exit(2)
            open(os.path.join(dst, name), "wb").write(data)
    sys.path.insert(0, src)
    import legacy
    for ps in (1024, 4096, 5000, 16384):
        d = bytearray(open(os.path.join(dst, "golden-%d.db" % ps), "rb").read())
        open(os.path.join(dst, "legacy-%d.db" % ps), "wb").write(legacy.convert(d, ps))


HISTORY_RULE = (
    "cases = (a) seeded grammar histories (2-16 write transactions of put/get/delete/bucket create/get/delete at depth<=3, "
    "cursor/seek/range/filters, commit/rollback/close+reopen; keys from a small pool mixing empty, 1-3 byte, 40 byte, ~1 page and "
    "1.5-3 page keys; values 0 B to 5 pages; every ToBytes impl), (b) every subset of a window of adjacent keys applied as "
    "deletions/insertions to measured one-, two- and three-level trees, (c) the directed nested-bucket-deletion family. "
    "distinct = distinct history (hash of its operation list). "
)

PROPS = {
    "C01": {
        "level": "exploration",
        "rule": HISTORY_RULE + "non-trivial = the history changed the structure of a tree at least once (leaf count or depth changed "
                "between two commits, an overflow run was written, or the file grew) as measured on the file by the independent parser.",
        "run": generic(sanitizers=('asan',), thorough_profiles=("verif-rel",), quick_profiles=("verif-rel",)),
        "floors": {"any": {"commits_made_while_a_reader_pinned_an_older_snapshot": 1000, "histories_root-directory": 60, "histories_bucket-directory": 300, "commits": 100, "leaf_count_increases(splits)": 5, "leaf_count_decreases(merges)": 5,
                           "depth_decreases(root_collapse)": 1, "depth_increases": 1, "reopens": 10, "rollbacks": 5,
                           "commits_with_overflow_runs": 5}},
        "assumptions": ["the reference model (harness/src/model.rs) is the intended sequential semantics of the public API",
                        "tmpfs behaves like a regular file system for write/mmap coherence"],
    },
    "C05": {
        "level": "exploration",
        "rule": HISTORY_RULE + "After every successful commit the file bytes are parsed by the independent checker (page roles, "
                "conservation, ordering, separators, extents) and DB::check() is called. non-trivial = same structural-change rule as C01.",
        "run": generic(sanitizers=('asan',), thorough_profiles=("verif-rel",), quick_profiles=("verif-rel",)),
        "floors": {"any": {"commits_made_while_a_reader_pinned_an_older_snapshot": 1000, "fileck_runs": 100, "pages_classified": 1000, "txs_with_2+_bucket_deletions": 3,
                           "txs_deleting_nested_then_ancestor": 3, "leaf_count_decreases(merges)": 5}},
        "assumptions": ["harness/src/fileck.rs encodes the pinned on-disk layout correctly (it is also cross-checked against golden files in C15)"],
    },
    "C07": {
        "level": "exploration",
        "rule": HISTORY_RULE + "Inside every write transaction, after EVERY operation, the whole visible state (recursive cursor walk, "
                "point get/get_kv on every key and absent neighbours, seeks, kv_pairs, buckets, next_int, in every bucket) is compared with "
                "the model. Plus 'iterations under way': a cursor / seeked cursor / range / kv_pairs / buckets iterator consumes >= 1 entry, the "
                "transaction then mutates only keys after the iterator's position (inserts, overwrites 0 B..3 pages, deletes emptying whole leaves, bucket "
                "create/delete, writes into nested buckets), and the SAME iterator must yield exactly the model's remaining entries. "
                "non-trivial = history with at least two such full in-transaction comparisons after mutations, or an under-way-iteration case.",
        "run": generic(sanitizers=('asan',), thorough_profiles=("verif-rel",)),
        "floors": {"any": {"full_state_verifications": 500, "live_mutations_ahead_of_an_open_iterator": 2000, "live_entries_compared_after_mutation": 20000,
                           "live_buckets": 100, "live_range-from-to": 100, "live_seeked-cursor": 100, "live_huge_leaf_entries": 70000, "tobytes:Listed": 500}},
        "assumptions": ["a cursor is always created after the mutation it is expected to reflect"],
    },
    "C08": {
        "level": "exploration",
        "rule": "cases = trees (empty, one leaf, two-level, three-level, with nested-bucket entries; committed through a read-only and a write "
                "transaction, and mid-transaction after emptying the first / middle / last / two adjacent leaves, deleting every second entry, "
                "everything, inserting between all entries, mixed) plus seeded random trees. On each tree the probe set = every key, key+0x00, "
                "a string just below each key, the empty key, a key above the maximum; ALL seeks over it and ALL ordered pairs x "
                "{Included,Excluded,Unbounded}^2 through the (Bound,Bound) impl plus a..b, a..=b, a.., ..b, ..=b, .. are compared with BTreeMap "
                "filter semantics; next() is called 3 more times after every exhaustion; kv_pairs()/buckets() on cursors and on ranges; every provided "
                "Iterator method an implementation could override (count, last, nth on both sides of the length + the rest + 3 more next(), size_hint, "
                "skip, step_by, fold, for_each, position, find) on cursors, kv_pairs, buckets and ranges. "
                "exhaustive=true only if every tree got the full pair grid (large trees use a probe stride in the quick tier). "
                "non-trivial = tree on which more than 10 seeks/ranges were compared.",
        "run": generic(sanitizers=('asan',), thorough_profiles=("verif-rel",)),
        "floors": {"any": {"seeks": 200, "range_scans": 5000, "next_calls_after_exhaustion": 1000, "iterator_adaptor_comparisons(count,last,nth,size_hint,skip,step_by,fold,find..)": 5000}},
        "assumptions": ["iteration after seek(absent key) may start at the predecessor or the successor (or at the end if there is no successor)"],
    },
    "C03": {
        "level": "exploration",
        "rule": "cases = single-threaded step sequences on a pre-sized file (no growth while a reader is open): open reader (<= k, k in 1..4), "
                "close a random reader, writer commit / rollback of a generated update/delete/bucket-delete transaction. After EVERY step every open "
                "reader is re-read in full (recursive cursor walk, point gets, seeks, filters) against the model state of the moment it began; before "
                "every writer the next writer's private free set (probe hook) must be disjoint from the pages reachable from the newest header and "
                "from every open reader's snapshot; after every writer the bytes of every pinned snapshot are re-hashed. "
                "distinct = distinct step sequence; non-trivial = a sequence in which pages were rewritten in place while a reader was open.",
        "run": generic(sanitizers=('asan',), thorough_profiles=("verif-rel",)),
        "floors": {"any": {"db_check_calls_while_readers_were_open": 2000, "full_reader_verifications": 500, "free_set_invariant_evaluations": 200,
                           "pages_rewritten_in_place_while_a_reader_was_open": 50, "max_readers": 3}},
        "assumptions": ["single thread: histories that would need a file growth with an open reader are skipped (documented self-deadlock) and counted as inconclusive"],
    },
    "C10": {
        "level": "exploration",
        "rule": "cases = long runs (quick 300, thorough 5000 transactions) of {fixed-size overwrite, variable-size overwrite incl. 4-page values, "
                "delete/reinsert, sub-bucket create/delete} x {no reopen, reopen every 25} x {no reader, reader held open for a stretch}, plus reader hand-over runs "
                "(a reader is open at every writer begin but none for longer than one transaction), sub-buckets holding multi-page values, and large-bucket "
                "fill/drop runs (free list of several pages, reopen after every 1st/3rd/4th transaction), a fragmented free set, a run after reader churn on "
                "eight threads, and top-level bucket cycles (12-25 top-level buckets created, then deleted in two parts by transactions that open nothing, so "
                "that some commits free pages without writing any; reopen after every 1st/2nd/3rd commit). Whenever no reader is open, the free set of the next "
                "writer must equal exactly the pages the newest header does not reach. After every "
                "commit the header's page high-water mark hwm(t) is read from the file, the independent parser measures L = max live pages and "
                "D = max pages newly written by one commit and checks page conservation. Bounds (derived from the allocation discipline, DESIGN.md "
                "C10): fixed-size hwm <= L+2D+8 and no second-half growth above D; variable-size hwm <= 4(L+D)+16 and second-half growth <= 10%+D; "
                "while a reader is open at most D pages per transaction; after it closes hwm(c+k) <= hwm(c+2)+D. "
                "non-trivial = run of >= 40 transactions in which pages below the previous high-water mark were re-allocated.",
        "run": generic(sanitizers=('asan',), thorough_profiles=()),
        "floors": {"any": {"runs_of_more_than_65536_transactions_on_one_file": 1, "commits_that_freed_pages_without_writing_a_tree_page": 2, "transactions": 1000, "pages_allocated_below_previous_hwm(reuse)": 1000, "runs_with_periodic_reopen": 5, "writer_begins_whose_free_set_was_compared_with_the_unreachable_pages": 2000, "runs_with_a_multi_page_free_list": 4, "short_readers_opened_and_closed_on_8_threads_before_a_run": 1000, "runs_with_reader_held": 2, "runs_with_reader_hand_over": 2}},
        "assumptions": ["bounds are sufficient conditions for a plateau, not the tightest possible"],
    },
    "C06": {
        "level": "exploration",
        "rule": "cases = grammar histories with 40% rolled-back transactions (a quarter of them with 60-300 operations incl. bucket deletes). "
                "(a) around every dropped write transaction: 128-bit fingerprint of the whole file and the shared free/pending/reader bookkeeping "
                "(probe hook) must be identical, the next transaction must see the prior committed state; (b) twin run: the same history without "
                "its rolled-back transactions must give the same contents digest and the same number of reachable pages after every commit; "
                "(c) after every call that returned an error the transaction's whole view is re-read and must equal the unchanged model; "
                "(d) on a third of the histories: every mutator (put, delete, create/get-or-create/delete bucket on Tx and on every Bucket, commit) "
                "through a read-only transaction - on handles looked up by name AND on handles handed out by the iterators - must return ReadOnlyTx, and neither "
                "that nor open+close (with the creation options and with three other initial page counts) may change the file's bytes; (e) on a fifth of "
                "the histories the last commit is made to fail by an injected write error (first, middle, last data write, header write; nothing written): "
                "the prior state must stay current, the handle's shared bookkeeping must be identical, and the retried transaction must commit soundly; "
                "(f) a write transaction in which every call fails is committed and must write exactly the pages an empty transaction's commit writes; (g) a "
                "strict-mode commit that the built-in check refuses leaves file and readers on the previous state; (h) case (e) on two directed histories whose "
                "last commit extends a minimum-size file (1 MiB / 9 MiB value), with every write fault and with the failure of each mmap after the extension, "
                "the retried transaction being read back in full through the same handle. "
                "non-trivial = history with at least one rolled-back transaction whose before/after state was compared.",
        "run": generic(thorough_profiles=("verif-rel",), env=SHIM_ENV, pre=build_shim),
        "floors": {"any": {"opens_of_a_database_with_0.10_layout_headers(bytes compared)": 30, "opens_of_a_database_with_one_unusable_header_page(bytes compared)": 200, "rollbacks_checked(file bytes + shared state)": 50, "twin_runs": 20, "read_only_mutator_calls": 500,
                           "error_returning_calls_followed_by_full_verification": 50,
                           "commits_failed_by_injected_write_error_and_checked_for_traces": 20,
                           "failed_commits_that_had_extended_the_file(write_and_mmap_faults)": 50, "error_only_transactions_compared_with_an_empty_commit": 100}},
        "assumptions": ["physical page ids / high-water mark are not compared between twins (HashMap iteration order makes allocation order vary between identical runs)"],
    },
    "C12": {
        "level": "fault_enumeration",
        "rule": "faults = mutations of ONE header page of files closed cleanly after 0..6 commits (newest header alternates between the slots): every "
                "offset x all 255 other byte values in the first 128 bytes (thorough: the whole page, also page size 4096), three values per offset in "
                "the rest, page zeroed / all ones / first sector zeroed, seeded 2-24 byte overwrites, and prefixes of the other header's record (torn "
                "header write). Each mutated copy is opened through the public API and read in full; if the mutation touches a semantic byte (type byte, "
                "the nine fields, the checksum) the contents must equal the state of the INTACT header, otherwise one of the two recorded states; every "
                "16th open is followed by a commit and DB::check. A reduced mutation set is also applied to files created with 4..16 initial pages after "
                "1-3 small commits (files that are full to their last page), to files whose newest commit changed nothing, to files whose previous "
                "commit wrote a free list of several pages (DB::check runs right after every open of a damaged file), and to files whose headers "
                "the current code did not (all) write: legacy-format (SHA3) header pairs, a legacy header next to a current one, files of the pinned "
                "release after one or two further commits. "
                "exhaustive=true when every offset got all 255 values. "
                "non-trivial = mutation touching a semantic byte.",
        "run": generic(thorough_profiles=(), pre=unpack_golden, extra_sets=("golden=" + os.path.join(ROOT, "out", "golden"),)),
        "floors": {"any": {"base_files_with_headers_the_current_code_did_not_write": 12, "mutations_on_base_files_with_foreign_headers": 500, "outcome:fell-back-to-previous": 1000, "outcome:kept-newest": 1000, "region:type-byte": 100, "region:checksum": 500,
                           "small_and_noop_base_files": 40, "mutations_on_small_and_noop_base_files": 2000}},
        "assumptions": ["FNV-1a is a bijection per absorbed byte, so every single-byte change of a hashed field is detectable; 2^-64 accidental matches of multi-byte overwrites are ignored"],
    },
    "C02": {
        "level": "fault_enumeration",
        "rule": "faults = crash points of recorded executions. Reuse-heavy histories (small and 20-60 op transactions, bucket deletes, page reuse, "
                "one growth workload in five; plus directed workloads: first commits of 4-page files, a multi-page free list rewritten by small commits, "
                "repeated file extension at page sizes 65536 and 16384, further commits on golden files written by the pinned release) run under the LD_PRELOAD shim, which records every write (with bytes, offset, file size) and sync on the "
                "database fd. For EVERY commit: (a) process kill = every prefix of the write sequence, the last write also cut at 512-byte boundaries; "
                "(b) power loss = at every sync, every subset of the writes pending since the previous sync (exhaustive up to 10 writes, else all "
                "single-missing / single-present / all-but-header + seeded subsets), sector-torn variants (prefix, suffix, random sectors) of one write, "
                "and the header write torn at 8-byte-word granularity (quick: all prefixes, suffixes + 40 seeded masks; thorough: all 8192 masks), with "
                "and without the other pending writes. Every distinct image is parsed by the independent checker (must be sound and equal the previous "
                "or the new state; the image holding all writes of an acknowledged commit must show the new state), reopened through the public API "
                "(same contents, DB::check), and every 8th takes one more commit. distinct/non-trivial = distinct image bytes.",
        "run": generic(thorough_profiles=(), env=SHIM_ENV, pre=lambda ctx: (build_shim(ctx), unpack_golden(ctx)), extra_sets=("golden=" + os.path.join(ROOT, "out", "golden"),)),
        "floors": {"any": {"recordings_whose_writes_reproduce_the_real_file_byte_for_byte": 20, "workloads_with_a_reader_open_at_every_writer_begin_and_closed_before_its_commit": 4, "commits_analysed": 20, "workloads_on_files_written_by_the_pinned_release": 3, "workloads_recorded_with_direct_writes": 4, "crash_images_tested(distinct bytes)": 2000, "images_showing_previous_state": 200,
                           "images_showing_new_state": 50, "header_word_torn_images_generated": 500, "sync_events_recorded": 20, "directed_workloads": 6,
                           "commits_that_extended_the_file": 4, "commits_with_a_multi_page_free_list": 2}},
        "assumptions": ["file size metadata is durable at the point it was observed", "a sync makes every earlier write durable; writes are torn at 512-byte sectors, the header record at 8-byte words",
                        "fallocate is invisible to the shim (raw system call); its effect is taken from the recorded file size"],
    },
    "C11": {
        "level": "fault_enumeration",
        "rule": "faults = for each target transaction (small, multi-page value, nested+sibling bucket deletes, many pages, growing by one / two extension "
                "steps) on a prepared file with a non-empty free list: the commit's libc write / fsync calls are counted first, then EVERY call index is "
                "failed in a fresh run: write -> EIO, ENOSPC, genuine short write (half written) then EIO, and 'every call from here on fails'; "
                "fsync -> EIO; a short write NOT followed by an error; extension -> RLIMIT_FSIZE at 6 limits around the needed size, and the mmap after the extension -> ENOMEM; plus sampled pairs (one fault in this commit, one in the next); every "
                "single fault on the non-growing targets a second time with an older reader held open across the failing commit and the follow-ups. "
                "Oracle per run: commit must not panic; Ok only if no call of the commit was failed and the new state is visible; same handle shows exactly pre or post state; the header on "
                "file parses as a sound tree; the next writer's free set is disjoint from the live pages; DB::check; three follow-up transactions "
                "commit and read back; after reopen the model state is read back and DB::check passes. exhaustive=true: every single call index of every "
                "target was failed. non-trivial = run in which the armed fault actually fired.",
        "run": generic(thorough_profiles=(), env=SHIM_ENV, pre=build_shim),
        "floors": {"any": {"injected_runs": 200, "faults_that_fired": 150, "commit_returned_err": 100, "follow_up_transactions_verified": 300,
                           "extension_failures_by_file_size_limit": 3, "runs_with_an_older_reader_held_open": 100, "older_reader_verifications": 300, "failed_growing_transactions_retried_on_the_same_handle": 5}},
        "assumptions": ["faults are injected at the libc boundary; fallocate failures are produced with RLIMIT_FSIZE because fs4 bypasses libc"],
    },
    "C16": {
        "level": "exploration",
        "rule": "cases = (history, configuration): grammar + shape-directed histories with absolute sizes replayed under page sizes "
                "{1024,1032,2048,3000,4096,5000,16384,65536,1 MiB} x initial pages {4,32,1000} x strict x populate (quick: a pairwise covering subset "
                "of 28 configurations; thorough: the full product, 1 MiB x 1000 pages serially) and compared call by call, after every commit and after "
                "reopen with the configuration-free model and the independent parser; growth runs of 26-70 MiB from the 4-page minimum file; page sizes "
                "{1025,1027,1030,2049,4097,5001,65537} each in a child process: must work (same oracle) or be refused before any file is written - a dying "
                "process is a violation. non-trivial = pair whose history committed at least once and ran to the end (growth runs: >= 2 extensions).",
        "run": generic(thorough_profiles=("verif-rel",), quick_profiles=("verif-rel",)),
        "floors": {"any": {"commits_verified": 300, "commits_under_strict_mode": 100, "growth_runs": 3, "file_extensions_observed_in_growth_runs": 6, "directed_growth_histories": 4, "histories_with_direct_writes": 10}},
        "assumptions": ["the reference model is configuration-free by construction"],
    },
    "C15": {
        "level": "exploration",
        "rule": "cases = golden files produced from the pinned tree f5c2214 at page sizes 1024/4096/5000/16384 (nested buckets, multi-page values, a key "
                "longer than a page, non-empty free list), each also rewritten with the legacy SHA3-256 header (8 files), plus 4 files written by the "
                "CURRENT code from the same logical history. Per golden file: the independent reader must parse it to the manifest written by the pinned "
                "code; the current code must open it, read the manifest contents through the full read API, pass DB::check, leave the bytes untouched, "
                "take 3 scripted + 48 (thorough 240) generated further transactions (page reuse, bucket create/delete, values 8 B..3 pages, rollbacks, reopens; "
                "independent parser + DB::check after each commit; newest header then in current format), and refuse each of 7 mismatching page sizes (and, "
                "for the small files, a sweep of ~250 other sizes incl. non-multiples of 8 next to the real one) without changing the file. Legacy-header "
                "files with 1..5 commits (newest legacy header in slot 0 and in slot 1) get the same treatment. Per produced file: the pinned-layout reader must parse "
                "it to the manifest contents. The space is finite and fully enumerated (exhaustive). non-trivial = every case.",
        "run": generic(sanitizers=('asan',), thorough_profiles=("verif-rel",), quick_profiles=("verif-rel",), pre=unpack_golden, extra_sets=("golden=" + os.path.join(ROOT, "out", "golden"),)),
        "floors": {"any": {"files_with_a_multi_page_root_directory_written_reopened_and_parsed": 4, "pinned_release_files_with_repeated_free_list_ids_checked": 2, "header_pairs_checked_for_alternation_after_further_commits": 600, "golden_files_checked": 8, "legacy_header_files_checked": 4, "opens_fully_verified_against_manifest": 8,
                           "further_commits_on_golden_files": 800, "legacy_files_with_1_to_5_commits_checked": 10, "files_whose_free_list_exactly_fills_its_pages_reopened": 2,
                           "free_list_walk_reopens": 300, "mismatching_page_sizes_refused": 48, "files_produced_by_current_code_parsed": 4,
                           "golden_files_with_garbage_in_uninitialised_padding": 8, "small_file_page_size_mismatches_refused": 25}},
        "assumptions": ["the golden files were produced once from the pinned tree and are integrity-checked against SHA256SUMS",
                        "every file any other check produces is also parsed by the same pinned-layout reader (C05, C02, C10, C11, C16)"],
    },
    "C04": {
        "level": "exploration",
        "rule": "cases = executions of real threads on the real database under the schedule controller: workers stop at the yield points inside jammdb "
                "(begin: before/after lock, after header read, after registration/release, end; commit: start, before grow/data/header/sync/publish, after "
                "publish; resize: before map lock / map mutex, after remap; drop) and at harness points; exactly one worker is released at a time; a released "
                "worker that blocks in the kernel is recognised by its thread state (futex) and another one is released. Strategies: breadth-first "
                "enumeration of all schedules with <= P preemptions (P=2 quick, 3 thorough; budget-limited, see dfs_bound), seeded PCT priorities and "
                "uniform random choices, and free-running stress with seeded sleeps at the same points. distinct = distinct sequence of (worker, point) "
                "decisions; non-trivial = execution with at least one preemption or lock-blocked worker (or a free-running one). "
                "Scenarios: 1-2 reader threads (1-2 read transactions each, re-reading 1-2 times) against one writer thread chaining 2-4 page-reusing "
                "commits (also from two writer threads), variants with a commit that grows the file (last, or followed by page-reusing commits), one "
                "starting on a file that is full to its last page, one after a growing commit whose remap was made to fail (file long, shared map short); between its read transactions every reader thread calls DB::check(), a reader of its own that also reads its snapshot's free-list page. Oracle from a global event counter: a reader's first full read must equal a "
                "committed state S_i with (#commits returned before its begin was called) <= i <= (#commits started before its begin returned); every "
                "re-read must equal the first; no writer alive during the reader's life may have pages reachable from the reader's (older) snapshot in "
                "its private free set (probe hook); nothing panics; after an execution in which every transaction ended the shared list of registered "
                "readers is empty and the file passes the independent parser and DB::check.",
        "run": generic(sanitizers=('tsan',), thorough_profiles=(), nshards=8, timeout_quick=1800, env=SHIM_ENV, pre=build_shim),
        "floors": {"any": {"executions": 1000, "executions_starting_on_an_exactly_full_file": 100, "executions_starting_after_a_failed_remap(file_long,map_short)": 100, "preemptions": 1000, "reader_transactions_judged": 1000, "readers_that_outlived_a_later_commit": 100,
                           "writer/reader_pairs_checked_for_free_set_safety": 500, "free_running_executions": 100}},
        "assumptions": ["the total order of harness events comes from one SeqCst counter", "schedules are enumerated at the instrumented yield points only"],
    },
    "C09": {
        "level": "exploration",
        "rule": "cases = executions of real threads on the real database under the schedule controller: workers stop at the yield points inside jammdb "
                "(begin: before/after lock, after header read, after registration/release, end; commit: start, before grow/data/header/sync/publish, after "
                "publish; resize: before map lock / map mutex, after remap; drop) and at harness points; exactly one worker is released at a time; a released "
                "worker that blocks in the kernel is recognised by its thread state (futex) and another one is released. Strategies: breadth-first "
                "enumeration of all schedules with <= P preemptions (P=2 quick, 3 thorough; budget-limited, see dfs_bound), seeded PCT priorities and "
                "uniform random choices, and free-running stress with seeded sleeps at the same points. distinct = distinct sequence of (worker, point) "
                "decisions; non-trivial = execution with at least one preemption or lock-blocked worker (or a free-running one). "
                "Scenarios: 2-3 writer threads doing read-modify-write increments of one counter (each also writes a unique key), one variant writing a "
                "1 MiB value so that the file grows and is remapped, with 1-2 reader threads checking counter == number of increment keys inside one "
                "snapshot and calling DB::check() after closing it; one variant starts on a file that is full to its last page, one after a growing commit whose remap was made to fail (mmap -> ENOMEM through the I/O shim), so that the file is long, the shared map short, and the growing increment maps the file again without extending it. Oracle: a harness-side flag strictly inside the span the write transaction is open must never see two writers; final counter "
                "== committed increments == increment keys; no counter value read by two committed increments; every thread finishes: a state in which "
                "every unfinished worker sits in a futex wait is a deadlock; a reader found blocked while no writer is extending the file is a violation.",
        "run": generic(sanitizers=('tsan',), thorough_profiles=(), nshards=8, timeout_quick=1800, env=SHIM_ENV, pre=build_shim),
        "floors": {"any": {"executions_with_a_client_panic_inside_an_open_write_transaction": 200, "executions": 1000, "executions_starting_after_a_failed_remap(file_long,map_short)": 100, "preemptions": 1000, "committed_increments": 3000, "workers_found_blocked_on_a_lock": 50,
                           "free_running_executions": 100}},
        "assumptions": ["each thread holds at most one transaction", "deadlock = every live worker asleep (state S) in a futex wait with no event for 200 ms (baton) / 1 s (free running)"],
    },
    "C13": {
        "level": "exploration",
        "rule": "cases = runs of 2 or 3 worker processes opening the same path (not yet created, or existing). Each worker records CLOCK_MONOTONIC "
                "timestamps of 'open returned' and 'about to close' (written before the handle is dropped, so correct locking implies disjoint intervals), "
                "the markers it sees, commits its own marker and runs DB::check. Orderings are FORCED with the LD_PRELOAD shim's gates: the first opener "
                "is held at every libc boundary of its open (after open64, before/after the initialising write, before/after fsync, before mmap) until "
                "the second (and third) opener's open64 has returned, and the second opener is held after its open64 until the first one maps the file; "
                "plus an opener held just before its open(2) of a not-yet-existing path while another creates / initialises / closes the database, an opener "
                "queued on the lock receiving 2-6 signals (it retries interrupted opens), and seeded start offsets (0-3 ms) and hold times (0-5 ms). Oracle: hold intervals pairwise disjoint; the k-th opener sees exactly the "
                "markers of the k-1 earlier ones; no opener errors, panics, dies or hangs (watchdog => inconclusive). "
                "non-trivial = run with a forced ordering or one in which an opener demonstrably waited for another.",
        "run": generic(thorough_profiles=(), pre=build_shim, extra_sets=("shim=" + SHIM,), nshards=8),
        "floors": {"any": {"runs_with_a_killed_holder_after_which_everything_committed_was_found": 20, "runs_followed_by_a_final_opener_that_found_everything": 100, "runs_in_which_a_holder_extended_the_file_with_others_queued": 30, "runs_with_forced_ordering": 12, "runs_on_file_not_yet_created": 15, "runs_on_existing_file": 10, "runs_with_3_processes": 5,
                           "runs_in_which_an_opener_had_to_wait_for_another": 10}},
        "assumptions": ["flock is issued by a raw system call and cannot be gated itself; the libc calls on both sides of it are"],
    },
    "C14": {
        "level": "other",
        "rule": "cases = corpus programs (generated by c14/gen_corpus.py; counts per kind are in the counters): 'reject' programs, one per (type, escape route) - KVPair / Data / "
                "BucketName obtained through every public accessor and kept as itself, as a borrowed slice or as a clone past the end of the "
                "transaction's scope and past commit; Bucket / Cursor / Range / Buckets / KVPairs handles kept past scope end and past commit; a Tx "
                "past its DB; short-lived keys, values and bucket names; Tx / Bucket / Cursor / KVPair / Data moved or shared into another thread - each "
                "must be rejected by rustc with one of the listed borrow / lifetime / Send error codes; 'twin' programs (the same programs carrying "
                "owned copies) and 'accept' programs (ordinary usage incl. a cloned DB on four threads) must compile and run; 'generated' programs "
                "carry every conversion the API offers (to_vec, Debug, to_bytes by value / by reference / of a clone ...) out of the transaction and "
                "must be rejected or run clean; 'speculative' programs ATTEMPT conversions the API does not offer today (to_bytes on KVPair / Data and on "
                "references and clones of them, Into<Vec<u8>> / Into<Box<[u8]>> / Into<String>, to_vec, to_string, into_owned ... on every type from every "
                "accessor): not offered (no such method / trait not implemented) or rejected by the borrow checker is fine, but one that compiles after a "
                "change to the crate is run as a probe like the generated ones. Every program that compiles is run: it ends its transaction, rewrites all data six times (page reuse) "
                "and grows the file twice (remap; replaced maps become PROT_NONE), re-reading the carried value after each step. "
                "non-trivial = reject program rejected with an expected code, or generated program that compiled and ran.",
        "explanation": "The rejection half of this property is a compile-time fact: the only possible observation of it is to run the compiler, so the check "
                       "runs rustc (cargo check) on each corpus program against the current tree and reads the diagnostics' error codes. The run-time half "
                       "is a monitor: every program that does compile is executed as a probe with dead memory maps made inaccessible, so a value that "
                       "still points into the mapped file faults (SIGSEGV) or is seen to change; the thorough tier repeats the probes under valgrind "
                       "memcheck. 'All programs' is out of reach: the corpus is finite and recipe-driven; the public API surface is enumerated from "
                       "rustdoc JSON only to report which items the corpus does not exercise.",
        "run": c14mod.run,
        "floors": {"any": {"reject_programs_rejected": 100, "twin_programs_compiled": 30, "accept_programs_compiled": 15, "probe_runs_clean": 50, "corpus_speculative_programs": 100}},
        "assumptions": ["rustc's verdict on the corpus program is taken as the observation of 'is a compile-time error'",
                        "the corpus is finite; escape routes it does not contain are not judged"],
        "crash_is_violation": False,
    },
}
