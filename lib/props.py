"""Per-property configuration of the check driver: how to run, what counts as
non-trivial (the 'rule' text of the evidence), coverage floors, level."""
import os

NSHARDS = min(16, os.cpu_count() or 4)


def generic(profile="verif", extra_sets=(), timeout_quick=1500, timeout_thorough=4 * 3600, nshards=None, thorough_profiles=()):
    def run(ctx):
        ctx["build"](profile)
        n = nshards or NSHARDS
        sets = list(extra_sets)
        if ctx["replay"]:
            # a replay runs the single recorded case in one worker
            import subprocess, json
            outp = os.path.join(ctx["rundir"], "replay.json")
            cmd = [ctx["vh_path"](profile), ctx["pid"], "--tier", ctx["tier"], "--seed", str(ctx["seed"]),
                   "--out", outp, "--replay", os.path.abspath(ctx["replay"]), "--replay-dir", os.path.join(ctx["out"], "replays")]
            for kv in sets:
                cmd += ["--set", kv]
            p = subprocess.run(cmd, cwd=ctx["root"])
            if p.returncode == 0 and os.path.exists(outp):
                return [json.load(open(outp))], [], 0
            return [], [{"shard": 0, "rc": p.returncode, "current": None, "log_tail": ""}], 0
        to = timeout_thorough if ctx["tier"] == "thorough" else timeout_quick
        shards, crashes, timeouts = ctx["run_shards"](ctx["pid"], ctx["tier"], ctx["seed"], ctx["rundir"], n,
                                                      ctx["vh_path"](profile), sets, None, to)
        if ctx["tier"] == "thorough":
            for prof in thorough_profiles:
                ctx["build"](prof)
                s2, c2, t2 = ctx["run_shards"](ctx["pid"], ctx["tier"], ctx["seed"] + 7919, ctx["rundir"], n,
                                               ctx["vh_path"](prof), sets + ["build=" + prof], None, to, tag="-" + prof)
                shards += s2
                crashes += c2
                timeouts += t2
        return shards, crashes, timeouts
    return run


HISTORY_RULE = (
    "cases = (a) seeded grammar histories (2-16 write transactions of put/get/delete/bucket create/get/delete at depth<=3, "
    "cursor/seek/range/filters, commit/rollback/close+reopen; keys from a small pool mixing empty, 1-3 byte, 40 byte, ~1 page and "
    "1.5-3 page keys; values 0 B to 5 pages; every ToBytes impl), (b) every subset of a window of adjacent keys applied as "
    "deletions/insertions to measured one-, two- and three-level trees, (c) the directed nested-bucket-deletion family. "
    "distinct = distinct history (hash of its operation list). "
)

PROPS = {
    "C01": {
        "level": "exploration",
        "rule": HISTORY_RULE + "non-trivial = the history changed the structure of a tree at least once (leaf count or depth changed "
                "between two commits, an overflow run was written, or the file grew) as measured on the file by the independent parser.",
        "run": generic(thorough_profiles=("verif-rel",)),
        "floors": {"any": {"commits": 100, "leaf_count_increases(splits)": 5, "leaf_count_decreases(merges)": 5,
                           "depth_decreases(root_collapse)": 1, "depth_increases": 1, "reopens": 10, "rollbacks": 5,
                           "commits_with_overflow_runs": 5}},
        "assumptions": ["the reference model (harness/src/model.rs) is the intended sequential semantics of the public API",
                        "tmpfs behaves like a regular file system for write/mmap coherence"],
    },
    "C05": {
        "level": "exploration",
        "rule": HISTORY_RULE + "After every successful commit the file bytes are parsed by the independent checker (page roles, "
                "conservation, ordering, separators, extents) and DB::check() is called. non-trivial = same structural-change rule as C01.",
        "run": generic(thorough_profiles=("verif-rel",)),
        "floors": {"any": {"fileck_runs": 100, "pages_classified": 1000, "txs_with_2+_bucket_deletions": 3,
                           "txs_deleting_nested_then_ancestor": 3, "leaf_count_decreases(merges)": 5}},
        "assumptions": ["harness/src/fileck.rs encodes the pinned on-disk layout correctly (it is also cross-checked against golden files in C15)"],
    },
    "C07": {
        "level": "exploration",
        "rule": HISTORY_RULE + "Inside every write transaction, after EVERY operation, the whole visible state (recursive cursor walk, "
                "point get/get_kv on every key and absent neighbours, seeks, kv_pairs, buckets, next_int, in every bucket) is compared with "
                "the model. non-trivial = history with at least two such full in-transaction comparisons after mutations.",
        "run": generic(thorough_profiles=("verif-rel",)),
        "floors": {"any": {"full_state_verifications": 500}},
        "assumptions": ["a cursor is always created after the mutation it is expected to reflect"],
    },
}
