"""C14 driver: the compile-time half is observed by running rustc on a corpus of
client programs; whatever compiles is run as a probe process (dead maps are
inaccessible, pages are reused, the file is remapped)."""
import json, os, re, subprocess, sys, time, hashlib
from concurrent.futures import ThreadPoolExecutor

ROOT = os.path.dirname(os.path.dirname(os.path.abspath(__file__)))
C14 = os.path.join(ROOT, "c14")
CORPUS = os.path.join(C14, "corpus")
TARGET = os.path.join(ROOT, "target", "c14")


def sh(cmd, cwd, env=None, timeout=3600):
    e = dict(os.environ, CARGO_NET_OFFLINE="true")
    if env:
        e.update(env)
    return subprocess.run(cmd, cwd=cwd, env=e, stdout=subprocess.PIPE, stderr=subprocess.PIPE, text=True, timeout=timeout)


def api_surface(log):
    """public functions / methods of the crate, from nightly rustdoc JSON (coverage accounting only)"""
    try:
        p = sh(["cargo", "+nightly", "rustdoc", "--offline", "--lib", "--features", "verif-hooks", "--target-dir", os.path.join(ROOT, "target", "rustdoc"),
                "--", "-Zunstable-options", "--output-format", "json"], cwd="/repo", timeout=600)
        jf = os.path.join(ROOT, "target", "rustdoc", "doc", "jammdb.json")
        if p.returncode != 0 or not os.path.exists(jf):
            log("rustdoc JSON unavailable: " + p.stderr[-300:])
            return None
        d = json.load(open(jf))
        idx = d["index"]
        out = set()
        for iid, it in idx.items():
            if it.get("crate_id", 0) != 0:
                continue
            inner = it.get("inner", {})
            if "impl" in inner:
                imp = inner["impl"]
                ty = imp.get("for", {})
                tname = None
                if isinstance(ty, dict):
                    rp = ty.get("resolved_path") or {}
                    tname = rp.get("name") or rp.get("path")
                    if tname is None and "borrowed_ref" in ty:
                        rp = (ty["borrowed_ref"].get("type") or {}).get("resolved_path") or {}
                        tname = "&" + str(rp.get("name") or rp.get("path"))
                trait = (imp.get("trait") or {}).get("name") or (imp.get("trait") or {}).get("path")
                if imp.get("synthetic") or imp.get("blanket_impl"):
                    continue
                for mid in imp.get("items", []):
                    m = idx.get(str(mid)) or idx.get(mid)
                    if not m or "function" not in m.get("inner", {}):
                        continue
                    vis = m.get("visibility")
                    if trait is None and vis != "public":
                        continue
                    if tname and not str(tname).startswith("verif"):
                        out.add("%s::%s%s" % (tname, m["name"], (" (impl %s)" % trait) if trait else ""))
        return sorted(out)
    except Exception as e:  # accounting only
        log("rustdoc JSON parse failed: %r" % (e,))
        return None


def run(ctx):
    log = ctx["log"]
    tier, seed = ctx["tier"], ctx["seed"]
    shard = {"property": "C14", "evaluations": 0, "nontrivial": [], "distinct": [], "counters": {}, "sets": {}, "samples": [], "violations": [],
             "inconclusive": 0, "inconclusive_notes": [], "notes": []}

    def count(k, n=1):
        shard["counters"][k] = shard["counters"].get(k, 0) + n

    def viol(sig, detail, name):
        os.makedirs(os.path.join(ROOT, "out", "replays"), exist_ok=True)
        path = os.path.join(ROOT, "out", "replays", "C14-%s.json" % hashlib.sha1(sig.encode()).hexdigest()[:16])
        src = ""
        try:
            src = open(os.path.join(CORPUS, "src", "bin", name + ".rs")).read()
        except Exception:
            pass
        json.dump({"property": "C14", "signature": sig, "detail": detail, "seed": seed, "tier": tier, "case": {"program": name, "source": src}}, open(path, "w"), indent=1)
        shard["violations"].append({"sig": sig, "detail": detail[:1500], "replay": path})

    only = None
    if ctx["replay"]:
        only = json.load(open(ctx["replay"]))["case"]["program"]

    # 1. corpus
    p = sh([sys.executable, os.path.join(C14, "gen_corpus.py")], cwd=C14)
    if p.returncode != 0:
        log(p.stdout + p.stderr)
        log("HARNESS-ERROR: corpus generation failed")
        sys.exit(2)
    corpus = json.load(open(os.path.join(CORPUS, "corpus.json")))
    if only:
        corpus = [c for c in corpus if c["name"] == only]
    names = {c["name"]: c for c in corpus}

    # 2. type-check everything against the current tree
    t0 = time.time()
    chk = sh(["cargo", "check", "--offline", "--keep-going", "--bins", "--message-format=json", "--target-dir", TARGET], cwd=CORPUS, timeout=3000)
    errs, built = {}, set()
    lib_failed = False
    for line in chk.stdout.splitlines():
        try:
            m = json.loads(line)
        except Exception:
            continue
        if m.get("reason") == "compiler-message":
            msg = m["message"]
            if msg.get("level") == "error":
                t = m["target"]["name"]
                if "lib" in m["target"].get("kind", []):
                    lib_failed = True
                code = (msg.get("code") or {}).get("code")
                errs.setdefault(t, []).append((code, msg.get("message", "")[:160]))
        elif m.get("reason") == "compiler-artifact":
            built.add(m["target"]["name"])
    if lib_failed or ("c14" not in built and not errs):
        log(chk.stderr[-3000:])
        log("HARNESS-ERROR: the corpus helper library does not build against the current tree")
        sys.exit(2)
    log("type-checked %d programs in %.1fs" % (len(corpus), time.time() - t0))

    to_run = []
    for c in corpus:
        n = c["name"]
        e = errs.get(n)
        shard["evaluations"] += 1
        shard["distinct"].append(int(hashlib.sha1(n.encode()).hexdigest()[:15], 16))
        if c["kind"] == "reject":
            if not e:
                count("reject_programs_that_compile")
                viol("compiles:%s" % n, "a program that must be rejected compiles: %s" % c["description"], n)
                to_run.append(c)
            else:
                codes = {x[0] for x in e}
                if codes & set(c["expect_codes"]):
                    count("reject_programs_rejected")
                    shard["nontrivial"].append(int(hashlib.sha1(n.encode()).hexdigest()[:15], 16))
                    for x in sorted(codes & set(c["expect_codes"])):
                        count("rejected_with_" + x)
                else:
                    shard["inconclusive"] += 1
                    shard["inconclusive_notes"].append("%s fails to compile for an unrelated reason: %s" % (n, e[0]))
        elif c["kind"] in ("twin", "accept"):
            if e:
                viol("correct-usage-rejected:%s" % n, "a program that ordinary correct usage requires no longer compiles (%s): %s" % (c["description"], e[0]), n)
            else:
                count("%s_programs_compiled" % c["kind"])
                to_run.append(c)
        elif c["kind"] == "speculative":  # not offered by the API, rejected by the borrow checker, or runs clean
            if e:
                codes = {x[0] for x in e}
                if codes & {"E0597", "E0505", "E0515", "E0716", "E0521", "E0499", "E0502", "E0506", "E0373"}:
                    count("speculative_conversions_rejected_by_the_borrow_checker")
                elif codes & {"E0599", "E0277", "E0308", "E0282", "E0283", "E0614", "E0609", "E0507"}:
                    count("speculative_conversions_not_offered_by_the_api")
                else:
                    shard["inconclusive"] += 1
                    shard["inconclusive_notes"].append("%s fails to compile for an unrelated reason: %s" % (n, e[0]))
            else:
                count("speculative_conversions_that_compile(run_as_probes)")
                to_run.append(c)
        else:  # generated: rejected or runs clean
            if e:
                codes = {x[0] for x in e}
                count("generated_programs_rejected")
                if not (codes & {"E0597", "E0505", "E0515", "E0716", "E0521", "E0499", "E0502", "E0506", "E0277", "E0373"}):
                    shard["inconclusive"] += 1
                    shard["inconclusive_notes"].append("%s fails to compile for an unrelated reason: %s" % (n, e[0]))
            else:
                count("generated_programs_compiled")
                to_run.append(c)

    # 3. build and run what compiles
    t0 = time.time()
    bld = sh(["cargo", "build", "--offline", "--keep-going", "--bins", "--target-dir", TARGET], cwd=CORPUS, timeout=3000)
    log("built probes in %.1fs" % (time.time() - t0))
    scratch = "/dev/shm" if os.path.isdir("/dev/shm") else "/tmp"

    def probe(c, wrapper=None):
        exe = os.path.join(TARGET, "debug", c["name"])
        if not os.path.exists(exe):
            return (c, None, "binary missing", "")
        cmd = [exe] if not wrapper else wrapper + [exe]
        try:
            r = subprocess.run(cmd, stdout=subprocess.PIPE, stderr=subprocess.PIPE, text=True, timeout=900 if wrapper else 120, env=dict(os.environ, C14_SCRATCH=scratch))
            return (c, r.returncode, r.stdout[-300:], r.stderr[-1500:])
        except subprocess.TimeoutExpired:
            return (c, "timeout", "", "")

    def judge(c, rc, out, err, how):
        n = c["name"]
        if rc == "timeout":
            shard["inconclusive"] += 1
            shard["inconclusive_notes"].append("%s (%s): watchdog" % (n, how))
            return
        if rc is None:
            shard["inconclusive"] += 1
            shard["inconclusive_notes"].append("%s: %s" % (n, out))
            return
        count("probe_runs_" + how)
        if rc == 0 and "C14-PROBE-OK" in out:
            count("probe_runs_clean")
            if c["kind"] in ("generated", "speculative"):
                shard["nontrivial"].append(int(hashlib.sha1(("run" + n).encode()).hexdigest()[:15], 16))
            return
        if rc == 3:
            viol("escaped-value-changed:%s" % n, "%s: a value carried out of its transaction changed after the transaction ended: %s" % (c["description"], err.strip().splitlines()[-1] if err.strip() else ""), n)
        elif isinstance(rc, int) and rc < 0:
            viol("fault:%s:signal-%d" % (n, -rc), "%s: the program was killed by signal %d after its transaction ended (read of a dead memory map): %s" % (c["description"], -rc, err[-200:]), n)
        elif how == "memcheck" and "ERROR SUMMARY: 0 errors" not in err and "Invalid read" in err:
            viol("invalid-read:%s" % n, "%s: valgrind memcheck reports an invalid read: %s" % (c["description"], err[-600:]), n)
        elif rc != 0 or "C14-PROBE-OK" not in out:
            viol("probe-fails:%s:rc-%s" % (n, rc), "%s: program exited with status %s: %s" % (c["description"], rc, err[-400:]), n)

    with ThreadPoolExecutor(max_workers=os.cpu_count() or 4) as ex:
        for c, rc, out, err in ex.map(probe, to_run):
            judge(c, rc, out, err, "native")
    if tier == "thorough":
        gen = [c for c in to_run if c["kind"] in ("generated", "speculative", "reject")]
        wrapper = ["valgrind", "--tool=memcheck", "--undef-value-errors=no", "--error-exitcode=0", "-q"]
        with ThreadPoolExecutor(max_workers=os.cpu_count() or 4) as ex:
            for c, rc, out, err in ex.map(lambda c: probe(c, wrapper), gen):
                if rc == 0 and "Invalid read" in err:
                    judge(c, 1, out, err, "memcheck")
                else:
                    judge(c, rc, out, err, "memcheck")

    # 4. API surface accounting
    api = api_surface(log)
    if api is not None:
        srcs = ""
        for f in os.listdir(os.path.join(CORPUS, "src", "bin")):
            srcs += open(os.path.join(CORPUS, "src", "bin", f)).read()
        srcs += open(os.path.join(CORPUS, "src", "lib.rs")).read()
        used, unused = [], []
        for item in api:
            meth = item.split("::")[1].split(" ")[0]
            if re.search(r"[.:]%s\(" % re.escape(meth), srcs) or meth in ("next", "into_iter", "fmt", "eq", "clone", "default", "from", "drop"):
                used.append(item)
            else:
                unused.append(item)
        count("public_api_items_enumerated", len(api))
        count("public_api_items_exercised_by_the_corpus", len(used))
        shard["sets"]["public_api_items_not_exercised_by_the_corpus"] = unused
    kinds = {}
    for c in corpus:
        kinds[c["kind"]] = kinds.get(c["kind"], 0) + 1
    for k, v in kinds.items():
        count("corpus_%s_programs" % k, v)
    shard["samples"] = [{"program": c["name"], "kind": c["kind"], "what": c["description"]} for c in corpus[:1] + corpus[40:41] + corpus[-1:]]
    return [shard], [], 0
