#!/usr/bin/env python3
"""Regenerates DESIGN.md section 11 (which checks catch which seeded changes) from seeded/*/meta.json."""
import json, glob, os, re
rows = []
for d in sorted(glob.glob('/verif/seeded/*')):
    mp = os.path.join(d, 'meta.json')
    if not os.path.exists(mp):
        continue
    m = json.load(open(mp))
    title = ''
    np_ = os.path.join(d, 'NOTES.md')
    if os.path.exists(np_):
        for l in open(np_):
            if l.strip().startswith('#'):
                title = re.sub(r'^(C\d+\s*)?[/ ]*[Mm]utation [A-Za-z]\s*(\(C\d+\))?\s*[-—:]*\s*', '', l.strip('# \n'))
                title = re.sub(r'^C\d+ mutation [A-Za-z]:?\s*', '', title)
                title = re.sub(r'^[Mm]utation [A-Za-z]\s*(\(C\d+\))?\s*[-—:]*\s*', '', title)
                break
    det = {}
    for r in m['ran']:
        if 'check' not in r:
            continue
        det.setdefault(r['check'], []).append(r)
    cells = []
    for c, rs in sorted(det.items()):
        last = rs[-1]
        first = rs[0]
        if last.get('detected'):
            sig = (last.get('signatures') or [''])[0]
            note = ' (after strengthening; first run missed it)' if not first.get('detected') and len(rs) > 1 else ''
            cells.append("**%s %s**: `%s`%s" % (c, last.get('tier', 'quick'), sig[:70], note))
        else:
            cells.append("%s %s: not detected" % (c, last.get('tier', 'quick')))
    rows.append("| %s | %s | %s |" % (os.path.basename(d), title[:110].replace('|', '/'), '; '.join(cells)))
hdr = "| seeded change | what it breaks | detected by (first signature) |\n|---|---|---|\n"
block = "<!-- seeded-table-begin -->\n" + hdr + "\n".join(rows) + "\n<!-- seeded-table-end -->"
p = '/verif/DESIGN.md'
s = open(p).read()
if '<!-- seeded-table-begin -->' in s:
    s = re.sub(r'<!-- seeded-table-begin -->.*<!-- seeded-table-end -->', lambda _: block, s, flags=re.S)
else:
    s += "\n\n" + block + "\n"
open(p, 'w').write(s)
print(len(rows), "rows")
