#!/bin/sh
# trial.sh <name> <patch.diff|-> <check ids...>     [TIER=quick] [VERIF_SEED=..]
#
# Runs checks against a *patched scratch worktree* of /repo without touching /repo or /verif:
#   /tmp/<name>-repo     git worktree of /repo HEAD with the patch applied ("-" = no patch)
#   /tmp/<name>-verif    copy of /verif (committed + uncommitted files, no build output) whose
#                        harness, C14 corpus crate and rustdoc step point at the scratch worktree
# Used to try seeded changes and *benign* variants (changes that keep every property) in parallel
# with other work.  Nothing here is registered in MANIFEST.json and nothing it prints is evidence.
# Remove the scratch with:  trial.sh --clean <name>
set -e
if [ "$1" = "--clean" ]; then
  git -C /repo worktree remove --force "/tmp/$2-repo" 2>/dev/null || true
  rm -rf "/tmp/$2-verif" "/tmp/$2-repo"
  exit 0
fi
name="$1"; patch="$2"; shift 2
R="/tmp/$name-repo"; V="/tmp/$name-verif"
if [ ! -d "$R" ]; then
  git -C /repo worktree add --detach "$R" HEAD >/dev/null 2>&1
fi
git -C "$R" checkout -- . >/dev/null 2>&1
if [ "$patch" != "-" ]; then
  git -C "$R" apply "$patch"
fi
mkdir -p "$V"
rsync -a --delete --exclude target --exclude out --exclude .git --exclude 'c14/corpus/target' /verif/ "$V/"
sed -i "s#path = \"/repo\"#path = \"$R\"#" "$V/harness/Cargo.toml" "$V/c14/corpus/Cargo.toml"
sed -i "s#cwd=\"/repo\"#cwd=\"$R\"#" "$V/lib/c14.py"
sed -i "s#CARGO_TARGET_DIR=/verif/target#CARGO_TARGET_DIR=$V/target#" "$V/setup.sh"
cd "$V"
./setup.sh >/dev/null 2>"$V/setup.log" || echo "TRIAL $name: setup reported a failure (the checks build for themselves)"
for id in "$@"; do
  set +e
  out=$(./check "$id" "${TIER:-quick}" 2>&1)
  rc=$?
  set -e
  echo "TRIAL $name $id rc=$rc :: $(echo "$out" | grep -E "^C[0-9]+ (quick|thorough)" | tail -1)"
  echo "$out" | grep -E "signature:|VIOLATION|HARNESS|floor" | head -8
done
