#!/usr/bin/env python3
"""trialmut.py <ID> <variant> [--checks C01,C05] [--name scratchname]

Measures a seeded change (already confirmed and stored under seeded/<ID>-<variant>/) with the current
checks on a SCRATCH copy (lib/trial.sh: a scratch worktree of /repo with the patch applied and a copy of
/verif pointing at it) and records the result in seeded/<ID>-<variant>/meta.json exactly like evalmut.py
does for a run against /repo itself.  /repo is not touched, so several of these can run side by side and
next to other work.  The record says where it was measured."""
import json, os, re, subprocess, sys, time

pid, which = sys.argv[1], sys.argv[2]
checks = [pid]
name = "tm" + pid
args = sys.argv[3:]
while args:
    a = args.pop(0)
    if a == "--checks":
        checks = args.pop(0).split(",")
    elif a == "--name":
        name = args.pop(0)
dst = "/verif/seeded/%s-%s" % (pid, which)
mp = os.path.join(dst, "meta.json")
meta = json.load(open(mp)) if os.path.exists(mp) else {"property": pid, "variant": which, "ran": []}
meta.setdefault("source", "independent sub-agent given only the property text and a scratch worktree")
for c in checks:
    t0 = time.time()
    p = subprocess.run(["/verif/lib/trial.sh", name, os.path.join(dst, "patch.diff"), c], stdout=subprocess.PIPE, stderr=subprocess.STDOUT, text=True)
    out = p.stdout
    m = re.search(r"TRIAL \S+ %s rc=(\d+)" % c, out)
    rc = int(m.group(1)) if m else -1
    sigs = [re.sub(r"/tmp/[^/]+-repo/", "", s) for s in re.findall(r"signature: (.*)", out)]
    viol = [l for l in out.splitlines() if l.startswith("VIOLATION")]
    rec = {"check": c, "tier": "quick", "exit": rc, "violation_lines": len(viol), "signatures": sigs[:12], "wall_s": round(time.time() - t0, 1),
           "detected": rc == 1 and len(viol) > 0, "where": "scratch worktree + scratch copy of /verif (lib/trial.sh); /repo untouched"}
    if rc not in (0, 1):
        rec["tail"] = out[-600:]
    meta["ran"].append(rec)
    print("%s quick with %s-%s applied (scratch): exit %d, %d VIOLATION line(s) %s" % (c, pid, which, rc, len(viol), sigs[:3]), flush=True)
json.dump(meta, open(mp, "w"), indent=1)
