/* ioshim.so - LD_PRELOAD recorder / fault injector / gate for the jammdb checks.
 *
 * Observes the database file at the libc boundary (outside the implementation):
 * open64/openat/open, write, pwrite64, fsync, fdatasync, ftruncate64, mmap, close.
 * Only file descriptors whose path starts with $VERIF_DBPATH are touched.
 *
 *  record : vio_set_log(path) - append one record per call (with the bytes written)
 *  fault  : vio_arm(class, nth, errno, kind) - make the nth matching call fail
 *  gate   : $VERIF_GATES="point#k:waitfile:signalfile;..." - rendez-vous at a call
 *
 * fallocate and flock are issued by the fs4 crate through raw system calls and
 * never pass through libc, so they cannot be seen or failed here.
 */
#define _GNU_SOURCE
#include <dlfcn.h>
#include <errno.h>
#include <fcntl.h>
#include <pthread.h>
#include <stdarg.h>
#include <stdint.h>
#include <stdio.h>
#include <stdlib.h>
#include <string.h>
#include <sys/mman.h>
#include <sys/stat.h>
#include <sys/types.h>
#include <time.h>
#include <unistd.h>

#define MAXFD 4096
static char tracked[MAXFD];
static pthread_mutex_t mu = PTHREAD_MUTEX_INITIALIZER;
static int logfd = -1;
static uint64_t seq = 0;
static __thread int in_shim = 0;

/* statistics since the last vio_reset */
static uint64_t n_write = 0, n_fsync = 0, n_open = 0, n_mmap = 0, n_trunc = 0;

/* fault plan */
static int arm_class = 0;     /* 0 none, 1 write, 2 fsync */
static int64_t arm_nth = -1;  /* index among matching calls since arm */
static int arm_errno = EIO;
static int arm_kind = 0;      /* 0 fail once, 1 short write then fail continuation, 2 fail from nth on */
static int64_t arm_seen = 0;
static int arm_fired = 0;
static int cont_fail = 0;     /* the continuation of a short write must fail */
static int64_t short_len = 0; /* bytes a short write really writes (0 = half of the buffer) */
static int64_t below = 0;     /* class 3 = writes at a file offset below this (the two header pages) */

static ssize_t (*real_write)(int, const void *, size_t);
static ssize_t (*real_pwrite64)(int, const void *, size_t, off64_t);
static int (*real_fsync)(int);
static int (*real_fdatasync)(int);
static int (*real_close)(int);
static int (*real_ftruncate64)(int, off64_t);
static void *(*real_mmap)(void *, size_t, int, int, int, off_t);
static void *(*real_mmap64)(void *, size_t, int, int, int, off64_t);
static int (*real_open64)(const char *, int, ...);
static int (*real_open)(const char *, int, ...);
static int (*real_openat)(int, const char *, int, ...);
static int (*real_openat64)(int, const char *, int, ...);

static void init_real(void) {
    if (real_write) return;
    real_write = dlsym(RTLD_NEXT, "write");
    real_pwrite64 = dlsym(RTLD_NEXT, "pwrite64");
    real_fsync = dlsym(RTLD_NEXT, "fsync");
    real_fdatasync = dlsym(RTLD_NEXT, "fdatasync");
    real_close = dlsym(RTLD_NEXT, "close");
    real_ftruncate64 = dlsym(RTLD_NEXT, "ftruncate64");
    real_mmap = dlsym(RTLD_NEXT, "mmap");
    real_mmap64 = dlsym(RTLD_NEXT, "mmap64");
    real_open64 = dlsym(RTLD_NEXT, "open64");
    real_open = dlsym(RTLD_NEXT, "open");
    real_openat = dlsym(RTLD_NEXT, "openat");
    real_openat64 = dlsym(RTLD_NEXT, "openat64");
}

static int path_matches(const char *p) {
    const char *want = getenv("VERIF_DBPATH");
    if (!want || !p) return 0;
    return strncmp(p, want, strlen(want)) == 0;
}

/* ---- record ------------------------------------------------------------ */
struct rec {
    uint32_t magic; /* 0x56494f31 "VIO1" */
    uint32_t op;    /* 1 open 2 write 3 pwrite 4 fsync 5 fdatasync 6 ftruncate 7 mmap 8 close 9 mark */
    int32_t fd;
    int32_t err;
    uint64_t seq;
    int64_t off;
    uint64_t len;
    int64_t ret;
    uint64_t size_after;
};

static void log_rec(uint32_t op, int fd, int64_t off, uint64_t len, int64_t ret, int err, const void *data, uint64_t dlen) {
    if (logfd < 0) return;
    struct rec r;
    struct stat st;
    memset(&r, 0, sizeof r);
    r.magic = 0x56494f31;
    r.op = op;
    r.fd = fd;
    r.err = err;
    r.seq = seq++;
    r.off = off;
    r.len = len;
    r.ret = ret;
    in_shim = 1;
    r.size_after = (fd >= 0 && fstat(fd, &st) == 0) ? (uint64_t)st.st_size : 0;
    in_shim = 0;
    real_write(logfd, &r, sizeof r);
    if (data && dlen) real_write(logfd, data, dlen);
}

void vio_set_log(const char *path) {
    init_real();
    pthread_mutex_lock(&mu);
    if (logfd >= 0) { real_close(logfd); logfd = -1; }
    if (path && *path) logfd = real_open64(path, O_WRONLY | O_CREAT | O_TRUNC | O_APPEND, 0644);
    seq = 0;
    pthread_mutex_unlock(&mu);
}

void vio_mark(const char *text) {
    init_real();
    pthread_mutex_lock(&mu);
    size_t n = strlen(text);
    log_rec(9, -1, 0, n, 0, 0, text, n);
    pthread_mutex_unlock(&mu);
}

/* ---- fault ------------------------------------------------------------- */
void vio_arm(int cls, int64_t nth, int err, int kind) {
    pthread_mutex_lock(&mu);
    arm_class = cls; arm_nth = nth; arm_errno = err; arm_kind = kind;
    arm_seen = 0; arm_fired = 0; cont_fail = 0;
    pthread_mutex_unlock(&mu);
}

void vio_below(int64_t n) {
    pthread_mutex_lock(&mu);
    below = n;
    pthread_mutex_unlock(&mu);
}

void vio_short_len(int64_t n) {
    pthread_mutex_lock(&mu);
    short_len = n;
    pthread_mutex_unlock(&mu);
}

void vio_reset(void) {
    pthread_mutex_lock(&mu);
    short_len = 0;
    below = 0;
    n_write = n_fsync = n_open = n_mmap = n_trunc = 0;
    arm_class = 0; arm_nth = -1; arm_seen = 0; arm_fired = 0; cont_fail = 0;
    pthread_mutex_unlock(&mu);
}

void vio_stats(uint64_t *out) { /* out[6]: writes, fsyncs, opens, mmaps, truncs, fired */
    pthread_mutex_lock(&mu);
    out[0] = n_write; out[1] = n_fsync; out[2] = n_open; out[3] = n_mmap; out[4] = n_trunc; out[5] = (uint64_t)arm_fired;
    pthread_mutex_unlock(&mu);
}

int vio_present(void) { return 1; }

static int fault_decide(int cls);
/* write at file offset `off`: class 1 counts every write, class 3 only header-page writes */
static int fault_decide_w(int64_t off) {
    if (cont_fail) { cont_fail = 0; arm_fired++; return 1; }
    if (arm_class == 3) {
        if (!(below > 0 && off >= 0 && off < below)) return 0;
        int64_t i = arm_seen++;
        if (i != arm_nth) return 0;
        arm_fired++;
        return arm_kind == 1 ? 2 : (arm_kind == 3 ? 3 : 1);
    }
    return fault_decide(1);
}

/* returns 0 = proceed normally, 1 = fail with errno, 2 = short write */
static int fault_decide(int cls) {
    if (cls == 1 && cont_fail) { cont_fail = 0; arm_fired++; return 1; }
    if (arm_class != cls) return 0;
    int64_t i = arm_seen++;
    if (arm_kind == 2) { if (i >= arm_nth) { arm_fired++; return 1; } return 0; }
    if (i != arm_nth) return 0;
    arm_fired++;
    if (arm_kind == 1 && cls == 1) return 2;
    if (arm_kind == 3 && cls == 1) return 3; /* short write that is NOT followed by an error */
    return 1;
}

/* class 4: the nth mmap of the database file fails with ENOMEM */
static int fault_decide_mmap(void) {
    if (arm_class != 4) return 0;
    int64_t i = arm_seen++;
    if (i != arm_nth) return 0;
    arm_fired++;
    return 1;
}

/* ---- gates ------------------------------------------------------------- */
static uint64_t gate_count[16];
static const char *gate_names[] = {"after_open", "before_write", "after_write", "before_fsync", "after_fsync", "before_mmap", "after_mmap", "before_close", "after_stat", "before_open", "before_truncate", 0};

static void touch(const char *p) {
    int fd = real_open64(p, O_WRONLY | O_CREAT, 0644);
    if (fd >= 0) real_close(fd);
}

static void gate(int point) {
    const char *g = getenv("VERIF_GATES");
    if (!g) return;
    uint64_t k = gate_count[point]++;
    char want[64];
    snprintf(want, sizeof want, "%s#%llu", gate_names[point], (unsigned long long)k);
    const char *p = g;
    while (p && *p) {
        const char *end = strchr(p, ';');
        size_t n = end ? (size_t)(end - p) : strlen(p);
        char buf[1024];
        if (n < sizeof buf) {
            memcpy(buf, p, n); buf[n] = 0;
            char *c1 = strchr(buf, ':');
            if (c1) {
                *c1 = 0;
                char *waitf = c1 + 1;
                char *c2 = strchr(waitf, ':');
                char *sigf = 0;
                long soft_ms = 0; /* optional 4th field: give up silently after that many ms */
                if (c2) {
                    *c2 = 0; sigf = c2 + 1;
                    char *c3 = strchr(sigf, ':');
                    if (c3) { *c3 = 0; soft_ms = atol(c3 + 1); }
                }
                if (strcmp(buf, want) == 0) {
                    if (sigf && *sigf) touch(sigf);
                    if (*waitf) {
                        int spins = 0;
                        /* access(2), not stat: the shim interposes the stat family itself */
                        while (access(waitf, F_OK) != 0) {
                            struct timespec ts = {0, 200000};
                            nanosleep(&ts, 0);
                            ++spins;
                            if (soft_ms > 0 && spins > soft_ms * 5) break; /* an ordering the code under test rules out */
                            if (spins > 100000) { /* 20 s watchdog: give up, leave a marker */
                                char m[1100]; snprintf(m, sizeof m, "%s.timeout", waitf); touch(m);
                                break;
                            }
                        }
                    }
                }
            }
        }
        p = end ? end + 1 : 0;
    }
}

/* ---- interposed calls --------------------------------------------------- */
static int is_tracked(int fd) { return fd >= 0 && fd < MAXFD && tracked[fd]; }

static int after_open(int fd, const char *path) {
    if (fd >= 0 && fd < MAXFD && path_matches(path) && fd != logfd) {
        pthread_mutex_lock(&mu);
        tracked[fd] = 1;
        n_open++;
        log_rec(1, fd, 0, strlen(path), fd, 0, path, strlen(path));
        pthread_mutex_unlock(&mu);
        gate(0);
    }
    return fd;
}

int open64(const char *path, int flags, ...) {
    init_real();
    mode_t mode = 0;
    if (flags & (O_CREAT | O_TMPFILE)) { va_list ap; va_start(ap, flags); mode = va_arg(ap, mode_t); va_end(ap); }
    if (path_matches(path)) gate(9);
    int fd = real_open64(path, flags, mode);
    return after_open(fd, path);
}

int open(const char *path, int flags, ...) {
    init_real();
    mode_t mode = 0;
    if (flags & (O_CREAT | O_TMPFILE)) { va_list ap; va_start(ap, flags); mode = va_arg(ap, mode_t); va_end(ap); }
    if (path_matches(path)) gate(9);
    int fd = real_open(path, flags, mode);
    return after_open(fd, path);
}

int openat(int dirfd, const char *path, int flags, ...) {
    init_real();
    mode_t mode = 0;
    if (flags & (O_CREAT | O_TMPFILE)) { va_list ap; va_start(ap, flags); mode = va_arg(ap, mode_t); va_end(ap); }
    if (path_matches(path)) gate(9);
    int fd = real_openat(dirfd, path, flags, mode);
    return after_open(fd, path);
}

int openat64(int dirfd, const char *path, int flags, ...) {
    init_real();
    mode_t mode = 0;
    if (flags & (O_CREAT | O_TMPFILE)) { va_list ap; va_start(ap, flags); mode = va_arg(ap, mode_t); va_end(ap); }
    if (path_matches(path)) gate(9);
    int fd = real_openat64(dirfd, path, flags, mode);
    return after_open(fd, path);
}

ssize_t write(int fd, const void *buf, size_t count) {
    init_real();
    if (!is_tracked(fd)) return real_write(fd, buf, count);
    gate(1);
    pthread_mutex_lock(&mu);
    n_write++;
    int64_t off = (int64_t)lseek64(fd, 0, SEEK_CUR);
    int d = fault_decide_w(off);
    ssize_t ret;
    int err = 0;
    if (d == 1) { ret = -1; err = arm_errno; }
    else if (d == 2) {
        size_t half = short_len > 0 ? (size_t)short_len : count / 2;
        if (half >= count) half = count - 1;
        if (half == 0) { ret = -1; err = arm_errno; }
        else { ret = real_write(fd, buf, half); cont_fail = 1; }
    } else if (d == 3) {
        size_t half = short_len > 0 ? (size_t)short_len : count / 2;
        if (half >= count) half = count - 1;
        ret = half == 0 ? real_write(fd, buf, count) : real_write(fd, buf, half);
    } else ret = real_write(fd, buf, count);
    if (ret < 0 && !err) err = errno;
    log_rec(2, fd, off, count, ret, err, ret > 0 ? buf : 0, ret > 0 ? (uint64_t)ret : 0);
    pthread_mutex_unlock(&mu);
    gate(2);
    if (ret < 0) errno = err;
    return ret;
}

ssize_t pwrite64(int fd, const void *buf, size_t count, off64_t off) {
    init_real();
    if (!is_tracked(fd)) return real_pwrite64(fd, buf, count, off);
    gate(1);
    pthread_mutex_lock(&mu);
    n_write++;
    int d = fault_decide_w((int64_t)off);
    ssize_t ret;
    int err = 0;
    if (d == 1) { ret = -1; err = arm_errno; }
    else if (d == 2) {
        size_t half = short_len > 0 ? (size_t)short_len : count / 2;
        if (half >= count) half = count - 1;
        if (half == 0) { ret = -1; err = arm_errno; }
        else { ret = real_pwrite64(fd, buf, half, off); cont_fail = 1; }
    } else if (d == 3) {
        size_t half = short_len > 0 ? (size_t)short_len : count / 2;
        if (half >= count) half = count - 1;
        ret = half == 0 ? real_pwrite64(fd, buf, count, off) : real_pwrite64(fd, buf, half, off);
    } else ret = real_pwrite64(fd, buf, count, off);
    if (ret < 0 && !err) err = errno;
    log_rec(3, fd, off, count, ret, err, ret > 0 ? buf : 0, ret > 0 ? (uint64_t)ret : 0);
    pthread_mutex_unlock(&mu);
    gate(2);
    if (ret < 0) errno = err;
    return ret;
}

int fsync(int fd) {
    init_real();
    if (!is_tracked(fd)) return real_fsync(fd);
    gate(3);
    pthread_mutex_lock(&mu);
    n_fsync++;
    int d = fault_decide(2);
    int ret, err = 0;
    if (d) { ret = -1; err = arm_errno; } else { ret = real_fsync(fd); if (ret < 0) err = errno; }
    log_rec(4, fd, 0, 0, ret, err, 0, 0);
    pthread_mutex_unlock(&mu);
    gate(4);
    if (ret < 0) errno = err;
    return ret;
}

int fdatasync(int fd) {
    init_real();
    if (!is_tracked(fd)) return real_fdatasync(fd);
    gate(3);
    pthread_mutex_lock(&mu);
    n_fsync++;
    int d = fault_decide(2);
    int ret, err = 0;
    if (d) { ret = -1; err = arm_errno; } else { ret = real_fdatasync(fd); if (ret < 0) err = errno; }
    log_rec(5, fd, 0, 0, ret, err, 0, 0);
    pthread_mutex_unlock(&mu);
    gate(4);
    if (ret < 0) errno = err;
    return ret;
}

int ftruncate64(int fd, off64_t len) {
    init_real();
    if (is_tracked(fd)) gate(10);
    int ret = real_ftruncate64(fd, len);
    if (is_tracked(fd)) {
        pthread_mutex_lock(&mu);
        n_trunc++;
        log_rec(6, fd, len, 0, ret, ret < 0 ? errno : 0, 0, 0);
        pthread_mutex_unlock(&mu);
    }
    return ret;
}

void *mmap(void *addr, size_t len, int prot, int flags, int fd, off_t off) {
    init_real();
    if (is_tracked(fd)) gate(5);
    if (is_tracked(fd)) {
        pthread_mutex_lock(&mu);
        int fail = fault_decide_mmap();
        pthread_mutex_unlock(&mu);
        if (fail) { errno = ENOMEM; return MAP_FAILED; }
    }
    void *r = real_mmap(addr, len, prot, flags, fd, off);
    if (is_tracked(fd)) {
        pthread_mutex_lock(&mu);
        n_mmap++;
        log_rec(7, fd, off, len, r == MAP_FAILED ? -1 : 0, r == MAP_FAILED ? errno : 0, 0, 0);
        pthread_mutex_unlock(&mu);
        gate(6);
    }
    return r;
}

void *mmap64(void *addr, size_t len, int prot, int flags, int fd, off64_t off) {
    init_real();
    if (is_tracked(fd)) gate(5);
    if (is_tracked(fd)) {
        pthread_mutex_lock(&mu);
        int fail = fault_decide_mmap();
        pthread_mutex_unlock(&mu);
        if (fail) { errno = ENOMEM; return MAP_FAILED; }
    }
    void *r = real_mmap64 ? real_mmap64(addr, len, prot, flags, fd, off) : real_mmap(addr, len, prot, flags, fd, off);
    if (is_tracked(fd)) {
        pthread_mutex_lock(&mu);
        n_mmap++;
        log_rec(7, fd, off, len, r == MAP_FAILED ? -1 : 0, r == MAP_FAILED ? errno : 0, 0, 0);
        pthread_mutex_unlock(&mu);
        gate(6);
    }
    return r;
}

/* Other entry points a refactored commit path could use for the same effect.  Each is folded into the
 * recorded / fault-injected form of write or pwrite64 above for tracked descriptors (for a regular file a
 * vectored write is the write of the concatenation), so that the recorder and the fault classes keep
 * seeing every byte that reaches the file whichever call the code under test picks. */
#include <sys/uio.h>
static ssize_t (*real_writev)(int, const struct iovec *, int);
static ssize_t (*real_pwritev)(int, const struct iovec *, int, off_t);
static ssize_t (*real_pwritev64)(int, const struct iovec *, int, off64_t);
static ssize_t (*real_pwritev2)(int, const struct iovec *, int, off_t, int);
static int (*real_ftruncate)(int, off_t);

static char *flatten(const struct iovec *iov, int cnt, size_t *total) {
    size_t n = 0;
    for (int i = 0; i < cnt; i++) n += iov[i].iov_len;
    char *b = malloc(n ? n : 1);
    if (!b) return 0;
    size_t o = 0;
    for (int i = 0; i < cnt; i++) { memcpy(b + o, iov[i].iov_base, iov[i].iov_len); o += iov[i].iov_len; }
    *total = n;
    return b;
}

ssize_t writev(int fd, const struct iovec *iov, int cnt) {
    if (!real_writev) real_writev = dlsym(RTLD_NEXT, "writev");
    if (!is_tracked(fd)) return real_writev(fd, iov, cnt);
    size_t n = 0;
    char *b = flatten(iov, cnt, &n);
    if (!b) { errno = ENOMEM; return -1; }
    ssize_t r = write(fd, b, n);
    int e = errno;
    free(b);
    errno = e;
    return r;
}

static ssize_t pwritev_common(int fd, const struct iovec *iov, int cnt, off64_t off) {
    size_t n = 0;
    char *b = flatten(iov, cnt, &n);
    if (!b) { errno = ENOMEM; return -1; }
    ssize_t r = pwrite64(fd, b, n, off);
    int e = errno;
    free(b);
    errno = e;
    return r;
}

ssize_t pwritev(int fd, const struct iovec *iov, int cnt, off_t off) {
    if (!real_pwritev) real_pwritev = dlsym(RTLD_NEXT, "pwritev");
    if (!is_tracked(fd)) return real_pwritev(fd, iov, cnt, off);
    return pwritev_common(fd, iov, cnt, (off64_t)off);
}

ssize_t pwritev64(int fd, const struct iovec *iov, int cnt, off64_t off) {
    if (!real_pwritev64) real_pwritev64 = dlsym(RTLD_NEXT, "pwritev64");
    if (!is_tracked(fd)) return real_pwritev64 ? real_pwritev64(fd, iov, cnt, off) : -1;
    return pwritev_common(fd, iov, cnt, off);
}

ssize_t pwritev2(int fd, const struct iovec *iov, int cnt, off_t off, int flags) {
    if (!real_pwritev2) real_pwritev2 = dlsym(RTLD_NEXT, "pwritev2");
    if (!is_tracked(fd) || off == -1) {
        if (is_tracked(fd)) return writev(fd, iov, cnt); /* offset -1: at the file position */
        return real_pwritev2 ? real_pwritev2(fd, iov, cnt, off, flags) : -1;
    }
    return pwritev_common(fd, iov, cnt, (off64_t)off);
}

ssize_t pwrite(int fd, const void *buf, size_t count, off_t off) {
    return pwrite64(fd, buf, count, (off64_t)off); /* same call on LP64; pwrite64 handles untracked fds */
}

int ftruncate(int fd, off_t len) {
    if (!is_tracked(fd)) {
        if (!real_ftruncate) real_ftruncate = dlsym(RTLD_NEXT, "ftruncate");
        return real_ftruncate(fd, len);
    }
    return ftruncate64(fd, (off64_t)len);
}

/* File::metadata() -> statx(fd, "", AT_EMPTY_PATH, ...) (or fstat): a gate point after the caller has
 * looked at the file's size */
static int (*real_statx)(int, const char *, int, unsigned int, struct statx *);
int statx(int dirfd, const char *restrict path, int flags, unsigned int mask, struct statx *restrict buf) {
    if (!real_statx) real_statx = dlsym(RTLD_NEXT, "statx");
    int r = real_statx ? real_statx(dirfd, path, flags, mask, buf) : -1;
    if (is_tracked(dirfd) && path && !*path) gate(8);
    return r;
}

static int (*real_fstat)(int, struct stat *);
int fstat(int fd, struct stat *st) {
    if (!real_fstat) real_fstat = dlsym(RTLD_NEXT, "fstat");
    int r = real_fstat ? real_fstat(fd, st) : -1;
    if (fd != logfd && is_tracked(fd) && !in_shim) gate(8);
    return r;
}

int close(int fd) {
    init_real();
    if (is_tracked(fd)) {
        gate(7);
        pthread_mutex_lock(&mu);
        log_rec(8, fd, 0, 0, 0, 0, 0, 0);
        tracked[fd] = 0;
        pthread_mutex_unlock(&mu);
    }
    return real_close(fd);
}
